// vx: hook-controlled schedule explorer + trace recorder for YACLib built with
//     -DYACLIB_FAULT=FIBER -DYACLIB_VERIF.  Header-only, used by every concurrent harness.
//
// One *execution* = one run of a scenario on a fresh fault::Scheduler in which every scheduling
// decision (preempt here? which runnable fiber next? fail this weak CAS? which waiter does
// notify_one wake?) is taken from a choice sequence.  The explorer enumerates choice sequences
// (stateless DFS with a preemption bound and a spurious-failure bound) or draws them from a PRNG.
// Every execution yields a trace: one line per atomic / mutex operation on a *registered* object
// and per harness event, in the exact order in which they happened.
#pragma once

#ifndef YACLIB_VERIF
#  error "build with -DYACLIB_VERIF"
#endif

#include <yaclib/fault/config.hpp>
#include <yaclib/fault/detail/fiber/scheduler.hpp>
#include <yaclib/fault/verif.hpp>
#include <yaclib/log.hpp>

#include <csignal>
#include <cstdint>
#include <cstdio>
#include <cstdlib>
#include <cstring>
#include <functional>
#include <map>
#include <memory>
#include <set>
#include <string>
#include <unordered_map>
#include <unordered_set>
#include <vector>
#include <yaclib_std/thread>

#include <common/own.hpp>  // optional ownership monitor (C03); only the empty macro VX_OWN_PAUSE unless built with -DVX_OWN

namespace vx {

struct Choice {
  int chosen;
  int n;
  char kind;  // 'p' preempt, 'k' pick next fiber / waiter, 'w' weak CAS failure, 'x' harness-defined
};

inline const char* OrdName(int o) {
  switch (o) {
    case 0: return "rlx";
    case 1: return "con";
    case 2: return "acq";
    case 3: return "rel";
    case 4: return "acq_rel";
    case 5: return "sc";
  }
  return "?";
}

inline const char* OpName(int op) {
  using namespace yaclib::verif;
  switch (op) {
    case kLoad: return "load";
    case kStore: return "store";
    case kExchange: return "xchg";
    case kCasWeak: return "cas_weak";
    case kCasStrong: return "cas_strong";
    case kFetchAdd: return "fadd";
    case kFetchSub: return "fsub";
    case kFetchAnd: return "fand";
    case kFetchOr: return "for";
    case kFetchXor: return "fxor";
    case kLock: return "lock";
    case kTryLock: return "try_lock";
    case kUnlock: return "unlock";
    case kPark: return "park";
    case kParkTimed: return "park_timed";
    case kNotifyOne: return "notify_one";
    case kNotifyAll: return "notify_all";
    case kWake: return "wake";
  }
  return "?";
}

struct SplitMix {
  std::uint64_t s;
  std::uint64_t next() {
    std::uint64_t z = (s += 0x9e3779b97f4a7c15ULL);
    z = (z ^ (z >> 30)) * 0xbf58476d1ce4e5b9ULL;
    z = (z ^ (z >> 27)) * 0x94d049bb133111ebULL;
    return z ^ (z >> 31);
  }
  std::uint64_t below(std::uint64_t n) { return n == 0 ? 0 : next() % n; }
};

class Ctx {
 public:
  // ---- exploration parameters
  int preempt_bound = 2;
  int weak_bound = 1;
  bool random_mode = false;
  SplitMix rng{1};
  int random_preempt_permille = 150;
  int random_weak_permille = 100;

  // ---- per execution state
  std::vector<Choice> stack;  // DFS prefix to replay + new choices appended
  std::size_t pos = 0;
  int preempts = 0, weaks = 0;
  bool just_preempted = false;
  bool nondeterminism = false;
  std::vector<std::string> trace;
  std::vector<std::string> asserts;  // library YACLIB_ASSERT/DEBUG messages that fired
  std::unordered_map<const void*, std::string> objs;         // atomic / sync object -> name
  std::unordered_map<unsigned long long, std::string> vals;  // pointer-valued word -> name
  std::unordered_map<std::string, bool> numeric;             // object name -> print numbers verbatim
  std::unordered_map<unsigned long long, std::string> tids;  // fiber id -> name
  std::unordered_map<unsigned long long, bool> dirty;        // fiber did a traced op since last offered preemption
  std::uint64_t unknown_ops = 0;
  std::uint64_t injection_points = 0;
  bool trace_resume = false;
  bool auto_sync = true;  // name unknown mutexes m0, m1, … and wait queues q0, q1, … by first appearance
  int auto_m = 0, auto_q = 0, auto_cb = 0;

  // ---- totals
  std::uint64_t executions = 0;

  void BeginExecution() {
    pos = 0;
    preempts = weaks = 0;
    just_preempted = false;
    trace.clear();
    asserts.clear();
    objs.clear();
    vals.clear();
    numeric.clear();
    tids.clear();
    dirty.clear();
    unknown_ops = 0;
    auto_m = auto_q = auto_cb = 0;
    ++executions;
  }

  bool replaying = false;  // follow a recorded choice string exactly (bounds do not apply)

  int Choose(char kind, int n) {
    VX_OWN_PAUSE();
    if (n <= 1) return 0;
    if (replaying) {
      // the recording contains only the questions that were actually asked (bounds may have suppressed others):
      // a question whose kind is not the next recorded one was not asked then, and takes the default
      if (pos < stack.size() && stack[pos].kind == kind) {
        int c = stack[pos].chosen;
        ++pos;
        return c < n ? c : 0;
      }
      if (kind == 'k') nondeterminism = true;  // picks are always recorded
      return 0;
    }
    if (random_mode) {
      int c;
      if (kind == 'p') c = static_cast<int>(rng.below(1000)) < random_preempt_permille ? 1 : 0;
      else if (kind == 'w') c = static_cast<int>(rng.below(1000)) < random_weak_permille ? 1 : 0;
      else c = static_cast<int>(rng.below(static_cast<std::uint64_t>(n)));
      stack.push_back({c, n, kind});
      ++pos;
      return c;
    }
    if (pos < stack.size()) {
      Choice& c = stack[pos];
      if (c.kind != kind || c.n != n) {
        nondeterminism = true;  // replay diverged: report, then behave as a fresh choice
        stack.resize(pos);
        stack.push_back({0, n, kind});
        ++pos;
        return 0;
      }
      ++pos;
      return c.chosen;
    }
    stack.push_back({0, n, kind});
    ++pos;
    return 0;
  }

  // advance the DFS; false when the space (under the bounds) is exhausted
  bool Advance() {
    if (random_mode) {
      stack.clear();
      return true;
    }
    stack.resize(pos);  // drop choices that were not reached in the last execution
    while (!stack.empty()) {
      Choice& c = stack.back();
      if (c.chosen + 1 < c.n) {
        ++c.chosen;
        return true;
      }
      stack.pop_back();
    }
    return false;
  }

  std::string ChoiceString() const {
    std::string s;
    for (std::size_t i = 0; i < pos && i < stack.size(); ++i) {
      if (!s.empty()) s += ' ';
      s += stack[i].kind;
      s += std::to_string(stack[i].chosen);
      s += '/';
      s += std::to_string(stack[i].n);
    }
    return s;
  }

  bool LoadChoices(const std::string& s) {
    stack.clear();
    const char* p = s.c_str();
    while (*p) {
      while (*p == ' ') ++p;
      if (!*p) break;
      char kind = *p++;
      char* end;
      long c = std::strtol(p, &end, 10);
      if (*end != '/') return false;
      long n = std::strtol(end + 1, &end, 10);
      stack.push_back({static_cast<int>(c), static_cast<int>(n), kind});
      p = end;
    }
    return true;
  }

  // ---- naming
  unsigned long long CurId() const { return yaclib::fault::Scheduler::GetId(); }
  std::string Cur() {
    VX_OWN_PAUSE();
    auto it = tids.find(CurId());
    return it == tids.end() ? std::string("t?") : it->second;
  }
  void NameSelf(const std::string& name) {
    VX_OWN_PAUSE();
    tids[CurId()] = name;
  }
  void NameObj(const void* p, const std::string& name, bool is_numeric = false) {
    VX_OWN_PAUSE();
    objs[p] = name;
    numeric[name] = is_numeric;
  }
  void ForgetObj(const void* p) {
    VX_OWN_PAUSE();
    objs.erase(p);
  }
  void NameVal(const void* p, const std::string& name) {
    VX_OWN_PAUSE();
    vals[reinterpret_cast<std::uintptr_t>(p)] = name;
  }
  void NameValWord(unsigned long long w, const std::string& name) {
    VX_OWN_PAUSE();
    vals[w] = name;
  }
  std::string Val(const std::string& obj, unsigned long long w) {
    VX_OWN_PAUSE();
    if (numeric[obj]) return std::to_string(w);
    auto it = vals.find(w);
    if (it != vals.end()) return it->second;
    // an unknown pointer value: a callback object allocated inside the library; name by first appearance
    std::string name = "cb" + std::to_string(auto_cb++);
    vals[w] = name;
    return name;
  }

  void Event(const std::string& payload) {
    VX_OWN_PAUSE();
    trace.push_back(Cur() + " E " + payload);
    dirty[CurId()] = true;
  }

  // ---- hook bodies
  int OnPreempt(int others) {
    VX_OWN_PAUSE();
    ++injection_points;
    if (!others) return 0;
    auto id = CurId();
    auto it = dirty.find(id);
    if (it == dirty.end() || !it->second) return 0;
    it->second = false;
    if (!random_mode && preempts >= preempt_bound) return 0;
    int c = Choose('p', 2);
    if (c) {
      ++preempts;
      just_preempted = true;
    }
    return c;
  }
  int OnPick(unsigned n) {
    int c;
    if (just_preempted && n > 1) {
      c = Choose('k', static_cast<int>(n) - 1);  // the fiber that just yielded sits at the back: skip it
    } else {
      c = Choose('k', static_cast<int>(n));
    }
    just_preempted = false;
    return c;
  }
  int OnFailWeak() {
    if (!random_mode && weaks >= weak_bound) return 0;
    int c = Choose('w', 2);
    if (c) ++weaks;
    return c;
  }
  void OnAtomic(const void* obj, int op, int so, int fo, unsigned long long arg, unsigned long long expected,
                unsigned long long result, int ok) {
    VX_OWN_PAUSE();
    auto it = objs.find(obj);
    if (it == objs.end()) {
      ++unknown_ops;
      dirty[CurId()] = true;
      return;
    }
    const std::string& o = it->second;
    std::string line = Cur() + " A " + o + " " + OpName(op) + " ";
    using namespace yaclib::verif;
    if (op == kCasWeak || op == kCasStrong) {
      line += std::string(OrdName(so)) + "/" + OrdName(fo) + " " + Val(o, expected) + ">" + Val(o, arg) + " -> " +
              (ok ? std::string("ok") : "fail:" + Val(o, result));
    } else if (op == kLoad) {
      line += std::string(OrdName(so)) + " - -> " + Val(o, result);
    } else if (op == kStore) {
      line += std::string(OrdName(so)) + " " + Val(o, arg) + " -> -";
    } else {
      line += std::string(OrdName(so)) + " " + Val(o, arg) + " -> " + Val(o, result);
    }
    trace.push_back(std::move(line));
    dirty[CurId()] = true;
  }
  void OnSync(const void* obj, int op, int res) {
    VX_OWN_PAUSE();
    dirty[CurId()] = true;
    auto it = objs.find(obj);
    if (it == objs.end() && auto_sync) {
      using namespace yaclib::verif;
      bool is_mutex = op == kLock || op == kTryLock || op == kUnlock;
      std::string name = (is_mutex ? "m" : "q") + std::to_string(is_mutex ? auto_m++ : auto_q++);
      it = objs.emplace(obj, name).first;
    }
    if (it == objs.end()) {
      ++unknown_ops;
      return;
    }
    trace.push_back(Cur() + " M " + it->second + " " + OpName(op) + " " + std::to_string(res));
  }
  void OnResume(unsigned long long id) {
    VX_OWN_PAUSE();
    if (trace_resume) {
      auto it = tids.find(id);
      trace.push_back("- S resume " + (it == tids.end() ? std::string("t?") : it->second));
    }
  }
};

inline Ctx* gCtx = nullptr;

inline void InstallHooks(Ctx* ctx) {
  gCtx = ctx;
  auto& h = yaclib::verif::gHooks;
  h.ctx = ctx;
  h.preempt = [](void* c, int others) { return static_cast<Ctx*>(c)->OnPreempt(others); };
  h.pick = [](void* c, unsigned n) { return static_cast<Ctx*>(c)->OnPick(n); };
  h.fail_weak = [](void* c) { return static_cast<Ctx*>(c)->OnFailWeak(); };
  h.rand = [](void*, unsigned long long) -> long long { return 0; };
  h.on_resume = [](void* c, unsigned long long id) { static_cast<Ctx*>(c)->OnResume(id); };
  h.on_atomic = [](void* c, const void* obj, int op, int so, int fo, unsigned long long a, unsigned long long e,
                   unsigned long long r, int ok) { static_cast<Ctx*>(c)->OnAtomic(obj, op, so, fo, a, e, r, ok); };
  h.on_sync = [](void* c, const void* obj, int op, int res) { static_cast<Ctx*>(c)->OnSync(obj, op, res); };
}

inline void Ev(const std::string& s) { gCtx->Event(s); }

// A thread of the scenario (a fiber) with a stable name.
class Thread {
 public:
  Thread() = default;
  template <typename F>
  Thread(std::string name, F&& f)
    : _t{[name = std::move(name), f = std::forward<F>(f)]() mutable {
        gCtx->NameSelf(name);
        f();
      }} {}
  Thread(Thread&&) = default;
  Thread& operator=(Thread&&) = default;
  void join() { _t.join(); }

 private:
  yaclib_std::thread _t;
};

// Runs one execution. Returns false if the scenario did not finish (every fiber blocked: deadlock).
template <typename Scenario>
inline bool RunOnceImpl(Ctx& ctx, Scenario&& scenario) {
  ctx.BeginExecution();
  yaclib::fault::Scheduler scheduler;
  yaclib::fault::Scheduler::Set(&scheduler);
  bool done = false;
  auto* root = new yaclib_std::thread{[&] {
    ctx.NameSelf("r");
#ifdef VX_OWN
    own::OpenWindow();  // blocks allocated from here on (by any fiber, outside vx's own code) are counted
    scenario();
    own::CloseWindow();  // the scenario's own objects are out of scope
#else
    scenario();
#endif
    done = true;
  }};
  if (done) {
    root->join();
    delete root;
  } else {
    root->detach();  // leaked on purpose: blocked fibers cannot be unwound
    delete root;
  }
  yaclib::fault::Scheduler::Set(nullptr);
  return done;
}

template <typename Scenario>
inline bool RunOnce(Ctx& ctx, Scenario&& scenario) {
#ifdef VX_OWN
  own::BeginExecution();
  bool done = RunOnceImpl(ctx, scenario);  // the scheduler is gone when this returns
  own::EndExecution(done);                 // quarantine verified and released; a deadlocked execution's blocks are exempt
  return done;
#else
  return RunOnceImpl(ctx, scenario);
#endif
}

inline std::uint64_t HashLines(const std::vector<std::string>& lines) {
  std::uint64_t h = 1469598103934665603ULL;
  for (auto& l : lines) {
    for (unsigned char c : l) {
      h ^= c;
      h *= 1099511628211ULL;
    }
    h ^= 0xff;
    h *= 1099511628211ULL;
  }
  return h;
}

inline void InstallAssertCallbacks() {
#ifdef YACLIB_LOG_DEBUG
  auto cb = [](std::string_view file, std::size_t line, std::string_view /*func*/, std::string_view cond,
               std::string_view msg) noexcept {
    if (gCtx != nullptr) {
      gCtx->asserts.push_back(std::string(file.substr(file.rfind('/') + 1)) + ":" + std::to_string(line) + " " +
                              std::string(cond) + " " + std::string(msg));
    }
  };
  YACLIB_INIT_DEBUG(cb);
#endif
}

}  // namespace vx

// ------------------------------------------------------------------------------------------------
// exploration driver shared by the harnesses
namespace vx {

struct Options {
  std::string mode = "dfs";  // dfs | random
  int preempt_bound = 2;
  int weak_bound = 1;
  std::uint64_t max_exec = 200000;   // per scenario
  std::uint64_t random_runs = 2000;  // per scenario in random mode
  std::uint64_t seed = 1;
  std::string out;                   // trace file (distinct traces only)
  std::string replay_choices;        // run exactly this choice sequence
  bool has_replay = false;
  std::string only;                  // run only the scenario with this header
  bool verbose = false;
  // ownership monitor (common/own.hpp; needs a binary built with -DVX_OWN) — off by default
  bool own = false;                  // --own
  bool own_poison = true;            // --own-nopoison: quarantine freed blocks but do not fill / verify them
  long own_bt = -1;                  // --own-bt <i>: print the stack of the i-th counted allocation of every execution
  std::string own_stats;             // --own-stats <file>: append one JSON line per explored scenario
};

inline Options ParseOptions(int argc, char** argv) {
  Options o;
  for (int i = 1; i < argc; ++i) {
    std::string a = argv[i];
    auto next = [&]() -> std::string { return i + 1 < argc ? argv[++i] : ""; };
    if (a == "--mode") o.mode = next();
    else if (a == "--pb") o.preempt_bound = std::atoi(next().c_str());
    else if (a == "--wb") o.weak_bound = std::atoi(next().c_str());
    else if (a == "--max-exec") o.max_exec = std::strtoull(next().c_str(), nullptr, 10);
    else if (a == "--random-runs") o.random_runs = std::strtoull(next().c_str(), nullptr, 10);
    else if (a == "--seed") o.seed = std::strtoull(next().c_str(), nullptr, 10);
    else if (a == "--out") o.out = next();
    else if (a == "--choices") { o.replay_choices = next(); o.has_replay = true; }
    else if (a == "--only") o.only = next();
    else if (a == "-v") o.verbose = true;
    else if (a == "--own") o.own = true;
    else if (a == "--own-nopoison") o.own_poison = false;
    else if (a == "--own-bt") o.own_bt = std::atol(next().c_str());
    else if (a == "--own-stats") o.own_stats = next();
  }
#ifndef VX_OWN
  if (o.own) {
    std::fprintf(stderr, "--own: this binary was built without -DVX_OWN (the ownership monitor is not compiled in)\n");
    std::exit(2);
  }
#endif
  return o;
}

struct Stats {
  std::uint64_t executions = 0, distinct = 0, violations = 0, deadlocks = 0, exhausted_scenarios = 0,
                truncated_scenarios = 0, scenarios = 0, trace_lines = 0, nondeterministic = 0, asserts = 0,
                max_choices = 0, sum_preempts = 0, sum_weaks = 0;
};

class Explorer;
inline Explorer* gExplorer = nullptr;
inline void CrashHandler(int sig);

class Explorer {
 public:
  std::string current_header;

  // a crash of the process while the library under test runs is a finding: report the schedule that led to it
  void InstallCrashHandlers() {
    gExplorer = this;
    static char alt[1 << 16];
    stack_t ss{};
    ss.ss_sp = alt;
    ss.ss_size = sizeof(alt);
    sigaltstack(&ss, nullptr);
    struct sigaction sa {};
    sa.sa_handler = CrashHandler;
    sa.sa_flags = SA_ONSTACK | SA_RESETHAND;
    for (int sig : {SIGSEGV, SIGABRT, SIGBUS, SIGFPE, SIGILL}) sigaction(sig, &sa, nullptr);
  }

  explicit Explorer(const Options& o) : opt(o) {
    InstallCrashHandlers();
    ctx.preempt_bound = o.preempt_bound;
    ctx.weak_bound = o.weak_bound;
    ctx.random_mode = o.mode == "random";
    ctx.rng.s = o.seed * 0x9e3779b97f4a7c15ULL + 12345;
    InstallHooks(&ctx);
    InstallAssertCallbacks();
    if (!o.out.empty()) out = std::fopen(o.out.c_str(), "w");
#ifdef VX_OWN
    if (o.own) own::Enable(o.own_poison, o.own_bt);
#endif
  }
  ~Explorer() {
    if (out) std::fclose(out);
  }

  // the key under which examples of a violation are rationed: the message itself; with the ownership monitor on, the
  // message without its numbers (sizes and allocation indices differ from schedule to schedule)
  static std::string ViolationKind(const std::string& bad) {
#ifdef VX_OWN
    if (own::g.enabled) {
      std::string k;
      for (char c : bad)
        if (c < '0' || c > '9') k += c;
      return k;
    }
#endif
    return bad;
  }

  // scenario(): runs inside the root fiber.  monitor(done) -> "" if fine, else a description of the violation.
  template <typename Scenario, typename Monitor>
  void Run(const std::string& header, Scenario&& scenario, Monitor&& monitor) {
    if (!opt.only.empty() && opt.only != header) return;
    current_header = header;
    ++stats.scenarios;
    ctx.stack.clear();
    if (opt.has_replay) {
      ctx.random_mode = false;
      ctx.replaying = true;
      ctx.preempt_bound = 1 << 30;
      ctx.weak_bound = 1 << 30;
      ctx.LoadChoices(opt.replay_choices);
    }
    std::uint64_t n = 0;
    std::uint64_t limit = ctx.random_mode ? opt.random_runs : opt.max_exec;
    bool exhausted = false;
    while (true) {
      bool done = RunOnce(ctx, scenario);
      ++n;
      ++stats.executions;
      stats.sum_preempts += ctx.preempts;
      stats.sum_weaks += ctx.weaks;
      if (ctx.pos > stats.max_choices) stats.max_choices = ctx.pos;
      if (ctx.nondeterminism) {
        ++stats.nondeterministic;
        ctx.nondeterminism = false;
      }
      std::string bad = monitor(done);
#ifdef VX_OWN
      if (own::g.enabled) {
        char own_err[512];  // the ownership finding comes first: it is what this run is for
        if (own::TakeError(own_err, sizeof own_err)) bad = bad.empty() ? std::string(own_err) : std::string(own_err) + " [and: " + bad + "]";
      }
#endif
      if (bad.empty() && !done) bad = "deadlock: the scenario did not finish (every fiber blocked)";
      if (!done) ++stats.deadlocks;
      if (bad.empty() && !ctx.asserts.empty()) {
        bad = "library assertion fired: " + ctx.asserts[0];
        ++stats.asserts;
      }
      auto h = HashLines(ctx.trace) ^ std::hash<std::string>{}(header);
      bool fresh = seen.insert(h).second;
      if (fresh) {
        ++stats.distinct;
        stats.trace_lines += ctx.trace.size();
        if (out) {
          std::fprintf(out, "run %s\n", header.c_str());
          for (auto& l : ctx.trace) std::fprintf(out, "%s\n", l.c_str());
          std::fprintf(out, "end\n");
        }
        if (samples.size() < 3 && ctx.trace.size() > 3) {
          std::string s = "run " + header;
          for (auto& l : ctx.trace) s += " | " + l;
          samples.push_back(s);
        }
      }
      if (!bad.empty()) {
        ++stats.violations;
        // keep a few examples per distinct message so that a violation that fires in every schedule cannot crowd out others
        int& seen_msg = violation_kinds[ViolationKind(bad)];
        if (seen_msg++ < 3 && violations.size() < 90) {
          std::string v = "violation: " + bad + "\nscenario: " + header + "\nchoices: " + ctx.ChoiceString() + "\ntrace:";
          for (auto& l : ctx.trace) v += "\n  " + l;
          violations.push_back(v);
        }
      }
#ifdef VX_OWN
      if (own::g.enabled) OwnAfterExecution(header, scenario, done);  // on a replay: only remembers (nothing is pending)
#endif
      if (opt.has_replay) {
        std::printf("run %s\n", header.c_str());
        for (auto& l : ctx.trace) std::printf("%s\n", l.c_str());
        std::printf("end\n");
        break;
      }
      if (!ctx.Advance()) {
        exhausted = true;
        break;
      }
      if (n >= limit) break;
    }
    if (exhausted && !ctx.random_mode) ++stats.exhausted_scenarios;
    else if (!ctx.random_mode) ++stats.truncated_scenarios;
#ifdef VX_OWN
    if (own::g.enabled) OwnEndOfScenario(header, scenario);
#endif
  }

#ifdef VX_OWN
  // ---- ownership monitor, leak part (see common/own.hpp): suspects of execution k are judged after execution k+1
  struct OwnPending {
    bool has = false;
    std::uint64_t exec = 0;
    std::vector<Choice> choices;
    bool random = false, replaying = false;
    int pb = 0, wb = 0;
  };
  OwnPending own_pending;
  int own_confirmed_here = 0;  // leaks confirmed in the scenario being explored
  own::Counters own_flushed{};  // counters at the last --own-stats line

  void OwnRemember(std::uint64_t exec) {
    own_pending.has = true;
    own_pending.exec = exec;
    own_pending.choices.assign(ctx.stack.begin(), ctx.stack.begin() + static_cast<std::ptrdiff_t>(std::min(ctx.pos, ctx.stack.size())));
    own_pending.random = ctx.random_mode;
    own_pending.replaying = ctx.replaying;
    own_pending.pb = ctx.preempt_bound;
    own_pending.wb = ctx.weak_bound;
    ++own::g.c.suspects;
  }

  // re-run the remembered execution twice, exactly as it ran; a block of the first repetition that survives the second
  // one is left behind by every repetition of this schedule: a leak
  template <typename Scenario>
  void OwnConfirm(const std::string& header, Scenario& scenario) {
    OwnPending pend = std::move(own_pending);
    own_pending = OwnPending{};
    ++own::g.c.candidates;
    auto saved_stack = ctx.stack;
    auto saved_pos = ctx.pos;
    bool saved_random = ctx.random_mode, saved_replaying = ctx.replaying, saved_nd = ctx.nondeterminism;
    int saved_pb = ctx.preempt_bound, saved_wb = ctx.weak_bound;
    auto saved_exec = ctx.executions;
    auto saved_ip = ctx.injection_points;
    ctx.random_mode = false;
    ctx.replaying = pend.replaying;
    ctx.preempt_bound = pend.random ? (1 << 30) : pend.pb;  // a random run is never cut off by the bounds
    ctx.weak_bound = pend.random ? (1 << 30) : pend.wb;
    ctx.stack = pend.choices;
    bool d1 = RunOnce(ctx, scenario);
    std::uint64_t e1 = own::g.exec;
    ctx.stack = pend.choices;
    bool d2 = RunOnce(ctx, scenario);
    own::g.c.confirm_runs += 2;
    std::size_t n = own::CountLiveOf(e1);
    if (d1 && d2 && n > 0) {
      ++own::g.c.confirmed;
      ++own::g.c.violations;
      ++own_confirmed_here;
      char blocks[768];
      own::DescribeLiveOf(e1, blocks, sizeof blocks);
      std::string bad = "leak: " + std::to_string(n) + " block(s) allocated during the scenario are still live at quiescence (" +
                        blocks + "; allocation index = i-th counted allocation of the execution, see --own-bt)";
      ++stats.violations;
      int& seen_msg = violation_kinds[ViolationKind(bad)];
      if (seen_msg++ < 3 && violations.size() < 90) {
        std::string v = "violation: " + bad + "\nscenario: " + header + "\nchoices: " + ctx.ChoiceString() + "\ntrace:";
        for (auto& l : ctx.trace) v += "\n  " + l;
        violations.push_back(v);
      }
    } else if (!d1 || !d2) {
      ++own::g.c.unconfirmed;  // the repetition did not finish: not reproducible as recorded
    }
    own::g.error[0] = '\0';  // immediate errors were reported when the execution first ran
    ctx.stack = std::move(saved_stack);
    ctx.pos = saved_pos;
    ctx.random_mode = saved_random;
    ctx.replaying = saved_replaying;
    ctx.nondeterminism = saved_nd;
    ctx.preempt_bound = saved_pb;
    ctx.weak_bound = saved_wb;
    ctx.executions = saved_exec;
    ctx.injection_points = saved_ip;
  }

  template <typename Scenario>
  void OwnAfterExecution(const std::string& header, Scenario& scenario, bool done) {
    const std::uint64_t cur = own::g.exec;
    OwnPending mine;
    if (done && own::CountLiveOf(cur) > 0) {  // suspects: remember how this execution ran (its choices are still in ctx)
      OwnPending keep = std::move(own_pending);
      OwnRemember(cur);
      mine = std::move(own_pending);
      own_pending = std::move(keep);
    }
    // the harness's own observers were reset at the start of this execution: what is still there of the previous one is
    // a candidate and is confirmed (or not) by repetition
    if (own_pending.has && own::CountLiveOf(own_pending.exec) > 0) {
      if (own_confirmed_here < 3) OwnConfirm(header, scenario);  // a few replays per scenario are enough
      else ++own::g.c.unconfirmed;
    }
    own_pending = std::move(mine);
  }

  template <typename Scenario>
  void OwnEndOfScenario(const std::string& header, Scenario& scenario) {
    if (own_pending.has && own::CountLiveOf(own_pending.exec) > 0 && own_confirmed_here < 3) OwnConfirm(header, scenario);  // the repetitions are the next generation
    own_pending = OwnPending{};
    own_confirmed_here = 0;
    if (!opt.own_stats.empty()) {
      if (std::FILE* f = std::fopen(opt.own_stats.c_str(), "a")) {
        auto& c = own::g.c;
        auto d = [&](std::uint64_t own::Counters::*m) { return static_cast<unsigned long long>(c.*m - own_flushed.*m); };
        std::fprintf(f,
                     "{\"executions\": %llu, \"allocs\": %llu, \"frees\": %llu, \"bytes\": %llu, \"max_live\": %llu, "
                     "\"max_quarantined\": %llu, \"violations\": %llu, \"suspects\": %llu, \"candidates\": %llu, "
                     "\"confirm_runs\": %llu, \"confirmed\": %llu, \"unconfirmed\": %llu, \"exempt_deadlock_blocks\": %llu}\n",
                     d(&own::Counters::executions), d(&own::Counters::allocs), d(&own::Counters::frees), d(&own::Counters::bytes),
                     static_cast<unsigned long long>(c.max_live), static_cast<unsigned long long>(c.max_quarantined),
                     d(&own::Counters::violations), d(&own::Counters::suspects), d(&own::Counters::candidates),
                     d(&own::Counters::confirm_runs), d(&own::Counters::confirmed), d(&own::Counters::unconfirmed),
                     d(&own::Counters::exempt_deadlock));
        std::fclose(f);
      }
      own_flushed = own::g.c;
      own::g.c.max_live = own::g.live_now;  // maxima are per scenario in the stats file
      own::g.c.max_quarantined = own::g.quarantined_now;
    }
  }
#endif

  void Report() {
    std::printf("{\"executions\": %llu, \"distinct_traces\": %llu, \"violations\": %llu, \"deadlocks\": %llu, "
                "\"scenarios\": %llu, \"exhausted_scenarios\": %llu, \"truncated_scenarios\": %llu, "
                "\"trace_lines\": %llu, \"nondeterministic\": %llu, \"max_choices\": %llu, \"sum_preempts\": %llu, "
                "\"sum_weak_failures\": %llu, \"injection_points\": %llu, \"mode\": \"%s\", \"preempt_bound\": %d, "
                "\"weak_bound\": %d}\n",
                (unsigned long long)stats.executions, (unsigned long long)stats.distinct,
                (unsigned long long)stats.violations, (unsigned long long)stats.deadlocks,
                (unsigned long long)stats.scenarios, (unsigned long long)stats.exhausted_scenarios,
                (unsigned long long)stats.truncated_scenarios, (unsigned long long)stats.trace_lines,
                (unsigned long long)stats.nondeterministic, (unsigned long long)stats.max_choices,
                (unsigned long long)stats.sum_preempts, (unsigned long long)stats.sum_weaks,
                (unsigned long long)ctx.injection_points, opt.mode.c_str(), opt.preempt_bound, opt.weak_bound);
#ifdef VX_OWN
    if (own::g.enabled && own::g.in_exec && !violations.empty()) {
      // reporting from a crash handler, in the middle of an execution: say what the monitor knows about the blocks freed so far
      own::g.in_scenario = false;
      auto poisoned = own::g.quarantined_now;
      own::FlushQuarantine(true);
      char own_err[512] = {};
      if (!own::TakeError(own_err, sizeof own_err) && poisoned != 0 && own::g.poison && violations[0].find("crash") != std::string::npos)
        std::snprintf(own_err, sizeof own_err, "%llu block(s) freed earlier in this execution were filled with 0xDD and unchanged: "
                      "a fault on a 0xDD… value is a read through a dangling pointer", (unsigned long long)poisoned);
      if (own_err[0] != '\0') {
        auto eol = violations[0].find('\n');
        violations[0].insert(eol == std::string::npos ? violations[0].size() : eol, std::string(" [ownership monitor: ") + own_err + "]");
      }
    }
    if (own::g.enabled) {  // totals of this process (forked shards: see --own-stats); ignored by the report parsers
      auto& c = own::g.c;
      std::printf("OWN {\"executions\": %llu, \"allocs\": %llu, \"frees\": %llu, \"bytes\": %llu, \"live_now\": %llu, "
                  "\"violations\": %llu, \"suspects\": %llu, \"candidates\": %llu, \"confirm_runs\": %llu, \"confirmed\": %llu, "
                  "\"unconfirmed\": %llu, \"exempt_deadlock_blocks\": %llu}\n",
                  (unsigned long long)c.executions, (unsigned long long)c.allocs, (unsigned long long)c.frees,
                  (unsigned long long)c.bytes, (unsigned long long)own::g.live_now, (unsigned long long)c.violations,
                  (unsigned long long)c.suspects, (unsigned long long)c.candidates, (unsigned long long)c.confirm_runs,
                  (unsigned long long)c.confirmed, (unsigned long long)c.unconfirmed, (unsigned long long)c.exempt_deadlock);
    }
#endif
    for (auto& s : samples) std::printf("SAMPLE %s\n", s.c_str());
    for (auto& v : violations) std::printf("=====\n%s\n", v.c_str());
    std::fflush(stdout);
  }

  Options opt;
  Ctx ctx;
  Stats stats;
  std::unordered_set<std::uint64_t> seen;
  std::vector<std::string> samples;
  std::vector<std::string> violations;
  std::map<std::string, int> violation_kinds;
  std::FILE* out = nullptr;
};


inline void CrashHandler(int sig) {
  // not async-signal-safe, but the process is lost anyway and the report is what matters
  Explorer* ex = gExplorer;
  if (ex != nullptr) {
    ++ex->stats.violations;
    ++ex->stats.executions;
    std::string v = "violation: crash (signal " + std::to_string(sig) + ") while the library under test was running\nscenario: " +
                    ex->current_header + "\nchoices: " + ex->ctx.ChoiceString() + "\ntrace:";
    for (auto& l : ex->ctx.trace) v += "\n  " + l;
    ex->violations.insert(ex->violations.begin(), v);
    if (ex->out) std::fflush(ex->out);
    ex->Report();
  }
  std::_Exit(1);
}

}  // namespace vx
