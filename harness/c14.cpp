// C14 correspondence harness: the real yaclib::Mutex<Batching, FIFO> (all four option combinations) used by k = 2..3
// yaclib::Future<> coroutines, each doing 1..2 rounds through the locking forms (Lock, Guard, GuardSticky, TryLock,
// TryGuard) and the unlocking forms (co_await Unlock / guard.Unlock, UnlockOn, UnlockHere, guard destruction, sticky
// unlock), all schedules under a preemption bound.  Emits canonical traces for `ymdriver validate comutex` and checks
// the property's monitors directly on the implementation.
//
// Executors.  Coroutines run on an instrumented executor `Exec` driven by harness fibers (not on FairThreadPool: the
// pool's own mutex/condvar traffic would only add schedule points that belong to C08):
//   exec=inline : Submit runs the job at once, nested in the submitter (each coroutine is started on its own fiber);
//   exec=pool1  : FIFO queue drained by at most one worker fiber at a time (a single-thread executor: shows on the
//                 implementation that waiting never occupies the thread);
//   exec=pool2  : the same with at most two concurrent worker fibers.
// A worker fiber exits when the queue is empty and a new one is spawned by the next Submit, so no blocking primitive
// of the fiber layer is involved.
//
// Reaching the private word.  `_sender` is private in detail::MutexImpl; its address is obtained through the
// explicit-instantiation loophole (an explicit template instantiation may name a private member), no layout
// assumption, no change to /repo.
//
// Extra forms.  `lockw` = Lock() whose critical section waits (suspended on a harness gate, not on the mutex) until
// every other coroutine has pushed itself onto the mutex or finished: with k = 4 and FIFO this makes ONE GetHead take
// over three waiters, whatever the schedule (the FIFO monitor needs >= 3 waiters in one batch to tell a reversal from a
// rotation).  `dtry` = guard built with std::defer_lock + guard.TryLock(); `pguard`/`rtry` = a guard that lives across
// rounds, unlocked with UnlockHere and re-locked with guard.TryLock(); monitor: TryLock() == OwnsLock().
// (StickyGuard re-locked through the inherited Guard::TryLock keeps a stale `_executor`; that form is not generated.)
//
// `locky` = Lock() whose critical section gives its worker back once (re-queued directly, no mutex operation).
//
// Monitor "resumed although running / finished": the executor refuses to resume a coroutine that is not suspended
// (that would be undefined behaviour) and reports it: a resumption too many.
//
// Attribution.  Trace lines are labelled with the *coroutine* that executes them, not with the fiber: the coroutine
// body renames the running fiber after every resumption (`cN`).  When a coroutine submits itself (UnlockOn re-submits
// the unlocking coroutine before it releases the mutex; batched Unlock re-submits it before transferring to the next
// holder) the rest of that library call is attributed to `cN'` (the "tail" agent of the model).
#include <common/vx.hpp>

#include <yaclib/async/future.hpp>
#include <yaclib/coro/future.hpp>
#include <yaclib/coro/mutex.hpp>
#include <yaclib/coro/on.hpp>
#include <yaclib/exe/executor.hpp>

#include <deque>
#include <map>
#include <set>
#include <sstream>

namespace {

// ---- private member access -----------------------------------------------------------------------------------------
template <typename Tag, typename Tag::type M>
struct Rob {
  friend typename Tag::type Get(Tag) { return M; }
};
template <bool F, bool B>
struct SenderTag {
  using type = yaclib_std::atomic_uintptr_t yaclib::detail::MutexImpl<F, B>::*;
#pragma GCC diagnostic push
#pragma GCC diagnostic ignored "-Wnon-template-friend"
  friend type Get(SenderTag);
#pragma GCC diagnostic pop
};
template struct Rob<SenderTag<false, false>, &yaclib::detail::MutexImpl<false, false>::_sender>;
template struct Rob<SenderTag<false, true>, &yaclib::detail::MutexImpl<false, true>::_sender>;
template struct Rob<SenderTag<true, false>, &yaclib::detail::MutexImpl<true, false>::_sender>;
template struct Rob<SenderTag<true, true>, &yaclib::detail::MutexImpl<true, true>::_sender>;

template <bool Batching, bool FIFO>
yaclib_std::atomic_uintptr_t& Sender(yaclib::Mutex<Batching, FIFO>& m) {
  using M = yaclib::Mutex<Batching, FIFO>;
  auto& base = M::template Cast<typename M::Base>(m);
  return base.*Get(SenderTag<FIFO, Batching>{});
}

// ---- scenario ----------------------------------------------------------------------------------------------------------
struct Round {
  std::string acq;  // lock | guard | sticky | trylock | tryguard
  std::string rel;  // unlock | unlockon | here   (raw mutex)   gunlock | gunlockon | ghere | dtor (guards)   sunlock (sticky)
};

struct Scenario {
  bool batching, fifo;
  std::string exec;  // inline | pool1 | pool2
  std::vector<std::vector<Round>> prog;
  std::uint64_t cap = 0;  // bound on the executions of this scenario (0 = the command line's)
  std::string Header() const {
    std::string p;
    for (std::size_t i = 0; i < prog.size(); ++i) {
      if (i) p += ";";
      for (std::size_t j = 0; j < prog[i].size(); ++j) {
        if (j) p += ",";
        p += prog[i][j].acq + ":" + prog[i][j].rel;
      }
    }
    return std::string("comutex batching=") + (batching ? "1" : "0") + " fifo=" + (fifo ? "1" : "0") + " exec=" + exec +
           " k=" + std::to_string(prog.size()) + " prog=" + p;
  }
};

struct Shared {
  std::map<const yaclib::Job*, std::string> job_name;
  std::map<std::string, bool> started;
  std::map<std::string, int> run;  // 0 = suspended (or inside an await_suspend), 1 = running, 2 = finished
  std::map<unsigned long long, std::string> core_name;  // word stored in _sender -> coroutine
  // gate of the `lockw` form
  int gate_need = 0;
  std::set<std::string> gate_arrived;
  yaclib::Job* gate_waiting = nullptr;
  int inside = 0;          // coroutines inside the critical section
  int plain = 0;           // protected, non-atomic
  int sections = 0;        // critical sections completed
  int finished = 0;
  std::string violation;
  void Bad(const std::string& s) {
    if (violation.empty()) violation = s;
  }
};

Shared gShared;
Shared* gS = &gShared;
yaclib_std::atomic<int> gYieldPoint{0};  // not traced: only creates a preemption point inside the critical section

struct Exec final : yaclib::IExecutor {
  int workers = 0;  // 0 = inline
  std::deque<yaclib::Job*> q;
  int active = 0;
  int spawned = 0;
  std::deque<vx::Thread> threads;

  Type Tag() const noexcept final { return Type::Custom; }
  bool Alive() const noexcept final { return true; }
  // resuming a coroutine that is not suspended is undefined behaviour: report it instead of doing it
  static void CallJob(yaclib::Job& job) {
    auto it = gS->job_name.find(&job);
    if (it != gS->job_name.end() && gS->run[it->second] != 0) {
      gS->Bad("coroutine " + it->second + " resumed although it is " + (gS->run[it->second] == 1 ? "running" : "finished") +
              " (a resumption too many: not granted exactly once)");
      return;
    }
    job.Call();
  }
  void Submit(yaclib::Job& job) noexcept final {
    auto& ctx = *vx::gCtx;
    auto it = gS->job_name.find(&job);
    std::string jn = it == gS->job_name.end() ? std::string("job?") : it->second;
    if (!gS->started[jn]) {
      gS->started[jn] = true;  // the initial `co_await On(exec)`: not an operation of the mutex
    } else {
      vx::Ev("submit " + jn);
    }
    if (ctx.Cur() == jn) ctx.NameSelf(jn + "'");  // a coroutine handing itself over: the rest is its tail
    if (workers == 0) {
      std::string saved = ctx.Cur();
      CallJob(job);
      ctx.NameSelf(saved);
    } else {
      Enqueue(job);
    }
  }
  void Enqueue(yaclib::Job& job) {
    q.push_back(&job);
    if (active < workers) {
      ++active;
      threads.emplace_back("w" + std::to_string(spawned++), [this] { Drain(); });
    }
  }
  void Drain() {
    while (!q.empty()) {
      auto* j = q.front();
      q.pop_front();
      CallJob(*j);
    }
    --active;
  }
  void JoinAll() {
    for (std::size_t i = 0; i < threads.size(); ++i) threads[i].join();
  }
};

struct SelfAwaiter {
  yaclib::detail::BaseCore* core = nullptr;
  bool await_ready() const noexcept { return false; }
  template <typename P>
  bool await_suspend(yaclib_std::coroutine_handle<P> h) noexcept {
    core = &static_cast<yaclib::detail::BaseCore&>(h.promise());
    return false;
  }
  yaclib::detail::BaseCore* await_resume() const noexcept { return core; }
};

#define ME() (gS->run[me] = 1, vx::gCtx->NameSelf(me))
// (the mark is made inside the operand: g++ 12 does not reliably sequence `(mark, co_await x)`)
template <typename A>
A&& MarkSuspended(const std::string& me, A&& awaitable) {
  gS->run[me] = 0;
  return std::forward<A>(awaitable);
}
#define AWAIT(...) co_await MarkSuspended(me, __VA_ARGS__)

Exec* gExec = nullptr;
const void* gSenderObj = nullptr;

void GateArrive(const std::string& who) {
  if (gS->gate_need == 0) return;
  gS->gate_arrived.insert(who);
  if (static_cast<int>(gS->gate_arrived.size()) >= gS->gate_need && gS->gate_waiting != nullptr) {
    auto* j = gS->gate_waiting;
    gS->gate_waiting = nullptr;
    gExec->Enqueue(*j);  // not a mutex operation: no event
  }
}

struct GateAwaiter {
  bool await_ready() const noexcept { return static_cast<int>(gS->gate_arrived.size()) >= gS->gate_need; }
  template <typename P>
  void await_suspend(yaclib_std::coroutine_handle<P> h) noexcept {
    gS->gate_waiting = static_cast<yaclib::Job*>(&static_cast<yaclib::detail::BaseCore&>(h.promise()));
  }
  void await_resume() const noexcept {}
};

// `locky`: the critical section gives the worker back once (re-queued directly: not a mutex operation, no event)
struct YieldAwaiter {
  bool await_ready() const noexcept { return gExec == nullptr || gExec->workers == 0; }
  template <typename P>
  void await_suspend(yaclib_std::coroutine_handle<P> h) noexcept {
    gExec->Enqueue(*static_cast<yaclib::Job*>(&static_cast<yaclib::detail::BaseCore&>(h.promise())));
  }
  void await_resume() const noexcept {}
};

// trace hook wrapper: a successful push CAS on `_sender` is an arrival at the gate
void OnAtomicHook(void* c, const void* obj, int op, int so, int fo, unsigned long long a, unsigned long long e,
                  unsigned long long r, int ok) {
  static_cast<vx::Ctx*>(c)->OnAtomic(obj, op, so, fo, a, e, r, ok);
  if (obj == gSenderObj && op == yaclib::verif::kCasWeak && ok && a != 0) {
    auto it = gS->core_name.find(a);
    if (it != gS->core_name.end()) GateArrive(it->second);
  }
}

void Enter(const std::string& /*me*/) {
  vx::Ev("cs_enter");
  if (++gS->inside != 1) gS->Bad("two coroutines inside the critical section");
  int v = gS->plain;
  gYieldPoint.fetch_add(1, std::memory_order_relaxed);  // a preemption point inside the critical section
  if (gS->inside != 1) gS->Bad("two coroutines inside the critical section");
  gS->plain = v + 1;
}

void Exit(const std::string& rel) {
  ++gS->sections;
  --gS->inside;
  vx::Ev("cs_exit " + rel);
}

template <bool Batching, bool FIFO>
yaclib::Future<> Coro(const Scenario& sc, int id, yaclib::Mutex<Batching, FIFO>& m, Exec& ex) {
  const std::string me = "c" + std::to_string(id);
  ME();
  auto* core = AWAIT(SelfAwaiter{});
  vx::gCtx->NameVal(core, me);
  gS->job_name[static_cast<yaclib::Job*>(core)] = me;
  gS->core_name[reinterpret_cast<std::uintptr_t>(core)] = me;
  AWAIT(yaclib::On(ex));
  ME();
  yaclib::UniqueGuard<yaclib::Mutex<Batching, FIFO>> pg;  // the guard of the `pguard` / `rtry` forms lives across rounds
  for (const Round& r : sc.prog[id]) {
    if (r.acq == "dtry" || r.acq == "rtry" || r.acq == "pguard") {
      using G = yaclib::UniqueGuard<yaclib::Mutex<Batching, FIFO>>;
      if (r.acq == "dtry" || pg.Mutex() == nullptr) {
        if (r.acq == "pguard") {
          pg = AWAIT(m.Guard());
          ME();
        } else {
          pg = G{m, std::defer_lock};
        }
      } else if (r.acq == "pguard") {
        AWAIT(pg.Lock());
        ME();
      }
      if (r.acq != "pguard") {
        const bool ok = pg.TryLock();
        if (ok != pg.OwnsLock()) {
          gS->Bad(std::string("guard.TryLock() returned ") + (ok ? "true" : "false") + " but OwnsLock() is " +
                  (pg.OwnsLock() ? "true" : "false"));
          if (!ok) std::ignore = pg.Release();  // keep the run sane: do not release somebody else's lock as well
        }
        if (!ok) {
          vx::Ev("try_fail");
          continue;
        }
        if (gS->inside != 0) gS->Bad("guard.TryLock() succeeded while another coroutine is inside the critical section");
      }
      Enter(me);
      Exit(r.rel);
      if (r.rel == "gunlock") {
        AWAIT(pg.Unlock());
      } else if (r.rel == "gunlockon") {
        AWAIT(pg.UnlockOn(ex));
      } else if (r.rel == "ghere") {
        pg.UnlockHere();
      } else {  // dtor
        G dying = std::move(pg);
      }
      ME();
    } else if (r.acq == "lock" || r.acq == "lockw" || r.acq == "locky" || r.acq == "trylock") {
      if (r.acq != "trylock") {
        AWAIT(m.Lock());
        ME();
      } else if (!m.TryLock()) {
        vx::Ev("try_fail");
        continue;
      } else if (gS->inside != 0) {
        gS->Bad("TryLock succeeded while another coroutine is inside the critical section");
      }
      Enter(me);
      if (r.acq == "lockw") {
        AWAIT(GateAwaiter{});  // still inside the critical section
        ME();
      }
      if (r.acq == "locky") {
        AWAIT(YieldAwaiter{});  // still inside the critical section
        ME();
      }
      Exit(r.rel);
      if (r.rel == "unlock") {
        AWAIT(m.Unlock());
      } else if (r.rel == "unlockon") {
        AWAIT(m.UnlockOn(ex));
      } else {
        m.UnlockHere();
      }
      ME();
    } else if (r.acq == "guard" || r.acq == "tryguard") {
      yaclib::UniqueGuard<yaclib::Mutex<Batching, FIFO>> g;  // (no await inside ?: — g++ 12 miscompiles it)
      if (r.acq == "guard") {
        g = AWAIT(m.Guard());
      } else {
        g = m.TryGuard();
      }
      ME();
      if (!g) {
        vx::Ev("try_fail");
        continue;
      }
      if (r.acq == "tryguard" && gS->inside != 0) {
        gS->Bad("TryGuard succeeded while another coroutine is inside the critical section");
      }
      Enter(me);
      Exit(r.rel);
      if (r.rel == "gunlock") {
        AWAIT(g.Unlock());
      } else if (r.rel == "gunlockon") {
        AWAIT(g.UnlockOn(ex));
      } else if (r.rel == "ghere") {
        g.UnlockHere();
      }  // dtor: the guard is destroyed at the end of this block
      ME();
    } else {  // sticky
      auto g = AWAIT(m.GuardSticky());
      ME();
      Enter(me);
      Exit(r.rel);
      if (r.rel == "sunlock") {
        AWAIT(g.Unlock());
      } else if (r.rel == "gunlockon") {
        AWAIT(g.UnlockOn(ex));
      } else if (r.rel == "ghere") {
        g.UnlockHere();
      }
      ME();
    }
    ME();  // a guard destructor may have resumed another coroutine in place (inline executor)
  }
  ME();
  vx::Ev("done");
  ++gS->finished;
  GateArrive(me);
  gS->run[me] = 2;
  co_return{};
}

template <bool Batching, bool FIFO>
void RunScenarioT(const Scenario& sc) {
  gShared = Shared{};
  auto& ctx = *vx::gCtx;
  yaclib::Mutex<Batching, FIFO> m;
  ctx.NameObj(&Sender(m), "s");
  gSenderObj = &Sender(m);
  yaclib::verif::gHooks.on_atomic = &OnAtomicHook;
  for (auto& p : sc.prog)
    for (auto& r : p)
      if (r.acq == "lockw") gShared.gate_need = static_cast<int>(sc.prog.size()) - 1;
  ctx.NameValWord(0, "locked");
  ctx.NameValWord(~0ULL, "free");
  Exec ex;
  gExec = &ex;
  ex.workers = sc.exec == "inline" ? 0 : sc.exec == "pool1" ? 1 : 2;
  const int k = static_cast<int>(sc.prog.size());
  std::vector<yaclib::Future<>> futs(k);
  if (ex.workers == 0) {
    std::vector<vx::Thread> starters;
    for (int i = 0; i < k; ++i) {
      starters.emplace_back("t" + std::to_string(i), [&, i] { futs[i] = Coro(sc, i, m, ex); });
    }
    for (auto& t : starters) t.join();
  } else {
    for (int i = 0; i < k; ++i) {
      futs[i] = Coro(sc, i, m, ex);
      ctx.NameSelf("r");
    }
    ex.JoinAll();
  }
  ctx.NameSelf("r");
  gExec = nullptr;
  gSenderObj = nullptr;
}

void RunScenario(const Scenario& sc) {
  if (sc.batching) {
    sc.fifo ? RunScenarioT<true, true>(sc) : RunScenarioT<true, false>(sc);
  } else {
    sc.fifo ? RunScenarioT<false, true>(sc) : RunScenarioT<false, false>(sc);
  }
}

std::vector<std::string> Split(const std::string& s, char sep = ' ') {
  std::vector<std::string> out;
  std::stringstream ss(s);
  std::string t;
  while (std::getline(ss, t, sep)) {
    if (!t.empty()) out.push_back(t);
  }
  return out;
}

std::string Monitor(const Scenario& sc, bool done) {
  if (!done) return "";
  if (!gS->violation.empty()) return gS->violation;
  const int k = static_cast<int>(sc.prog.size());
  if (gS->finished != k) {
    return "lost wake-up: " + std::to_string(k - gS->finished) + " coroutine(s) never finished although no fiber is runnable";
  }
  if (gS->plain != gS->sections) return "lost update on the protected variable";
  // reconstruct from the trace: push order vs the order in which parked coroutines entered; try-lock results
  std::vector<std::string> arrivals, grants;
  std::map<std::string, bool> parked;
  int entered = 0, try_failed = 0, expected_rounds = 0, try_rounds = 0;
  for (auto& p : sc.prog) {
    for (auto& r : p) {
      ++expected_rounds;
      if (r.acq == "trylock" || r.acq == "tryguard" || r.acq == "dtry" || r.acq == "rtry") ++try_rounds;
    }
  }
  std::string holder;  // coroutine between cs_enter and cs_exit according to the trace
  for (auto& l : vx::gCtx->trace) {
    auto t = Split(l);
    if (t.size() >= 7 && t[1] == "A" && t[2] == "s" && t[3] == "cas_weak" && t[6] == "->" && t[7] == "ok") {
      auto ed = Split(t[5], '>');
      if (ed.size() == 2 && ed[1] != "locked") {  // a successful push of ed[1]
        arrivals.push_back(ed[1]);
        parked[ed[1]] = true;
      }
    }
    if (t.size() >= 3 && t[1] == "E" && t[2] == "cs_enter") {
      ++entered;
      if (!holder.empty()) return "trace: " + t[0] + " entered while " + holder + " is inside";
      holder = t[0];
      if (parked[t[0]]) {
        grants.push_back(t[0]);
        parked[t[0]] = false;
      }
    }
    if (t.size() >= 3 && t[1] == "E" && t[2] == "cs_exit") holder.clear();
    if (t.size() >= 3 && t[1] == "E" && t[2] == "try_fail") ++try_failed;
  }
  if (entered + try_failed != expected_rounds) {
    return "a request was not granted exactly once: " + std::to_string(entered) + " sections + " +
           std::to_string(try_failed) + " failed try-locks for " + std::to_string(expected_rounds) + " rounds";
  }
  if (try_failed > try_rounds) return "a blocking lock form reported failure";
  if (arrivals.size() != grants.size()) return "a parked coroutine was not granted exactly once";
  if (sc.fifo && arrivals != grants) {
    std::string a, g;
    for (auto& x : arrivals) a += x + " ";
    for (auto& x : grants) g += x + " ";
    return "FIFO violated: push order " + a + "but grant order " + g;
  }
  return "";
}

std::vector<Round> P(std::initializer_list<const char*> rs) {
  std::vector<Round> out;
  for (auto* r : rs) {
    auto t = Split(r, ':');
    out.push_back(Round{t[0], t[1]});
  }
  return out;
}

std::vector<Scenario> AllScenarios() {
  std::vector<std::vector<std::vector<Round>>> progs = {
    {P({"lock:unlock"}), P({"lock:unlock"})},
    {P({"lock:here"}), P({"guard:dtor"})},
    {P({"lock:unlockon"}), P({"trylock:here", "lock:unlock"})},
    {P({"sticky:sunlock"}), P({"sticky:sunlock", "tryguard:dtor"})},
    {P({"guard:gunlockon", "guard:ghere"}), P({"tryguard:gunlock", "sticky:dtor"})},
    {P({"lock:unlock"}), P({"lock:unlock"}), P({"lock:unlock"})},
    {P({"lock:here"}), P({"guard:gunlock"}), P({"sticky:sunlock"})},
    {P({"lock:unlock"}), P({"lock:unlockon"}), P({"guard:gunlockon"})},
    {P({"guard:dtor", "lock:unlock"}), P({"lock:unlockon"}), P({"sticky:ghere"})},
  };
  // guard-level TryLock on a deferred / unlocked guard (Guard::TryLock, not Mutex::TryLock)
  std::vector<std::vector<std::vector<Round>>> guard_progs = {
    {P({"lock:unlock"}), P({"dtry:dtor"})},
    {P({"guard:gunlock"}), P({"pguard:ghere", "rtry:gunlock"})},
    {P({"lock:here"}), P({"dtry:ghere"}), P({"lock:unlock"})},
  };
  // one GetHead takes over three waiters (k = 4, the holder waits inside its critical section until all have pushed)
  std::vector<std::vector<std::vector<Round>>> batch_progs = {
    {P({"lockw:unlock"}), P({"lock:unlock"}), P({"lock:unlock"}), P({"lock:unlock"})},
    {P({"lockw:here"}), P({"guard:dtor"}), P({"lock:unlockon"}), P({"sticky:sunlock"})},
  };
  std::vector<Scenario> out;
  for (int b = 0; b < 2; ++b)
    for (int f = 0; f < 2; ++f)
      for (const char* e : {"pool1", "pool2", "inline"}) {
        for (auto& p : progs) out.push_back(Scenario{b != 0, f != 0, e, p});
        for (auto& p : guard_progs) out.push_back(Scenario{b != 0, f != 0, e, p});
        if (std::string(e) != "inline") {
          for (auto& p : batch_progs) out.push_back(Scenario{b != 0, f != 0, e, p, 1500});
        }
      }
  return out;
}

// the reduced set run against the library built WITHOUT symmetric transfer (`--set nosym`; YACLIB_TRANSFER is then
// `handle.resume(); return true`): batched hand-over through co_await Unlock() / UnlockOn() / sticky unlock with two
// waiters taken over at the previous unlock (forced by the gate), and a further round after the hand-over
std::vector<Scenario> NosymScenarios() {
  std::vector<std::vector<std::vector<Round>>> progs = {
    {P({"lockw:unlock", "lock:unlock"}), P({"lock:unlock", "lock:unlock"}), P({"lock:unlock"})},
    // the next holder suspends inside its critical section while the unlocker goes on to lock again
    {P({"lockw:unlock"}), P({"locky:unlock", "lock:unlock"}), P({"locky:unlock", "lock:unlock"})},
    {P({"lockw:here"}), P({"locky:unlockon", "lock:here"}), P({"locky:unlockon", "lock:here"})},
    {P({"lockw:unlockon"}), P({"lock:unlockon", "lock:unlock"}), P({"guard:gunlockon", "guard:dtor"})},
    {P({"lockw:here"}), P({"sticky:sunlock", "lock:unlock"}), P({"sticky:sunlock"})},
  };
  std::vector<Scenario> out;
  for (int b = 0; b < 2; ++b)
    for (int f = 0; f < 2; ++f)
      for (const char* e : {"pool1", "pool2"})
        for (auto& p : progs) out.push_back(Scenario{b != 0, f != 0, e, p, 1500});
  return out;
}

}  // namespace

int main(int argc, char** argv) {
  auto opt = vx::ParseOptions(argc, argv);
  std::string set = "all";
  for (int i = 1; i + 1 < argc; ++i) {
    if (std::string(argv[i]) == "--set") set = argv[i + 1];
  }
  vx::Explorer ex(opt);
  const auto user_max = ex.opt.max_exec;
  auto scenarios = set == "nosym" ? NosymScenarios() : AllScenarios();
  if (set == "full") {  // thorough tier of the non-symmetric pass: everything
    for (auto& sc : NosymScenarios()) scenarios.push_back(sc);
  }
  if (!opt.only.empty() && set == "all") {  // a replay names its scenario by header, whichever set it came from
    std::set<std::string> have;
    for (auto& sc : scenarios) have.insert(sc.Header());
    for (auto& sc : NosymScenarios()) {
      if (have.insert(sc.Header()).second) scenarios.push_back(sc);
    }
  }
  for (auto& sc : scenarios) {
    ex.opt.max_exec = sc.cap != 0 && sc.cap < user_max ? sc.cap : user_max;
    ex.Run(sc.Header(), [&] { RunScenario(sc); }, [&](bool done) { return Monitor(sc, done); });
  }
  ex.Report();
  return ex.stats.violations == 0 ? 0 : 1;
}
