// C03: canary for the ownership monitor of common/vx.hpp (common/own.hpp).  Four tiny scenarios on two fibers, three of
// them with a deliberate ownership bug in the SCENARIO code (not in the library): the check expects the monitor to
// report exactly those three — a monitor that has gone blind (allocator no longer interposed, window never opened,
// everything exempted) is itself a finding.  Built with -DVX_OWN, run with --own.
#include <common/vx.hpp>

#include <yaclib/async/contract.hpp>
#include <yaclib/async/future.hpp>
#include <yaclib/async/promise.hpp>

#include <string>
#include <vector>

namespace {

struct Payload {
  long a = 1, b = 2, c = 3;
};

// the compiler must not see through these
Payload* volatile gKeep = nullptr;
[[gnu::noinline]] void Release(Payload* p) { delete p; }

void RunScenario(const std::string& kind) {
  auto [f, p] = yaclib::MakeContract<int>();
  Payload* obj = nullptr;
  vx::Thread tp("p", [&, p = std::move(p)]() mutable {
    obj = new Payload;
    std::move(p).Set(1);
  });
  vx::Thread tc("c", [&, f = std::move(f)]() mutable {
    int v = std::move(f).Get().Ok();
    vx::Ev("got " + std::to_string(v));
  });
  tp.join();
  tc.join();
  if (kind == "clean") {
    Release(obj);
  } else if (kind == "leak") {
    gKeep = obj;  // never released
  } else if (kind == "double_free") {
    Release(obj);
    gKeep = obj;
    Release(gKeep);
  } else if (kind == "write_after_free") {
    Release(obj);
    gKeep = obj;
    gKeep->b = 7;
  }
}

}  // namespace

int main(int argc, char** argv) {
  auto opt = vx::ParseOptions(argc, argv);
  vx::Explorer ex(opt);
  for (const char* kind : {"clean", "leak", "double_free", "write_after_free"}) {
    std::string k = kind;
    ex.Run("own_selftest kind=" + k, [&] { RunScenario(k); }, [](bool) { return std::string(); });
  }
  ex.Report();
  return ex.stats.violations == 0 ? 0 : 1;
}
