// C02 — "a callback taking Result always runs; a value callback runs on a value; an error / exception callback on that failure":
// the CLASS of a callback is decided by what it is invocable with (core.hpp Tag / CallImpl / CallResolveState through
// yaclib::is_invocable_v = detail::IsInvocable, util/detail/type_traits_impl.hpp) — the SPELLING of its parameter must not
// matter.  Fixed matrix, one output line per cell:
//
//   spell <family> <spelling> <class> <input> <form> inv=<n> final=<v<k>|e<k>|x<k>>
//
//   family   cv copyable value type / mv MOVE-ONLY value type
//   spelling R_val Result<V,E>   R_rref Result<V,E>&&   R_cref const Result<V,E>&   R_autoref auto&&   R_auto auto
//            V_val V             V_rref V&&             V_cref const V&             V_same  a generic parameter constrained to V
//            E_val E             E_cref const E&        (E&& is not accepted: the core passes the stored error as an lvalue)
//            X_val std::exception_ptr                   X_cref const std::exception_ptr&
//   input    v5 / e3 / e0 (StopError) / x2
//   form     inline  MakeFuture(input).ThenInline(f)        exec   MakeFuture(input).Then(manual, f) + Drain
//            lazy    MakeTask(input).ThenInline(f).ToFuture()      later  MakeContract().ThenInline(f), then Set(input)
// The functor counts its invocations and returns V{v + 1} for a value input, V{1} otherwise.
#include <yaclib/async/contract.hpp>
#include <yaclib/async/future.hpp>
#include <yaclib/async/make.hpp>
#include <yaclib/exe/manual.hpp>
#include <yaclib/lazy/make.hpp>
#include <yaclib/lazy/task.hpp>

#include <cstdio>
#include <exception>
#include <string>
#include <type_traits>
#include <utility>

struct SE {
  int code;
  SE(yaclib::StopTag) noexcept : code{0} {  // NOLINT
  }
  explicit SE(int c) noexcept : code{c} {
  }
  static const char* What() noexcept {
    return "SE";
  }
};
struct TagExc {
  int tag;
};
struct CV {
  int v;
  CV(int x) noexcept : v{x} {  // NOLINT
  }
};
struct MV {
  int v;
  MV(int x) noexcept : v{x} {  // NOLINT
  }
  MV(MV&&) noexcept = default;
  MV& operator=(MV&&) noexcept = default;
  MV(const MV&) = delete;
  MV& operator=(const MV&) = delete;
};

static int g_inv = 0;

template <typename V>
static int In(const yaclib::Result<V, SE>& r) {
  return r ? r.Value().v + 1 : 1;
}
template <typename V, typename = std::enable_if_t<std::is_same_v<V, CV> || std::is_same_v<V, MV>>>
static int In(const V& v) {
  return v.v + 1;
}
static int In(const SE&) {
  return 1;
}
static int In(const std::exception_ptr&) {
  return 1;
}

// one functor type per spelling; P = the parameter type
template <typename V, typename P>
struct F {
  V operator()(P a) {
    ++g_inv;
    return V{In(a)};
  }
};
template <typename V>
struct FAutoRef {
  template <typename T>
  V operator()(T&& a) {
    ++g_inv;
    return V{In(a)};
  }
};
template <typename V>
struct FAuto {
  template <typename T>
  V operator()(T a) {
    ++g_inv;
    return V{In(a)};
  }
};
template <typename V>
struct FSame {
  template <typename T, typename = std::enable_if_t<std::is_same_v<std::decay_t<T>, V>>>
  V operator()(T&& a) {
    ++g_inv;
    return V{In(a)};
  }
};

template <typename V>
static yaclib::Result<V, SE> Input(int i) {
  switch (i) {
    case 0:
      return yaclib::Result<V, SE>{V{5}};
    case 1:
      return yaclib::Result<V, SE>{SE{3}};
    case 2:
      return yaclib::Result<V, SE>{yaclib::StopTag{}};
    default:
      return yaclib::Result<V, SE>{std::make_exception_ptr(TagExc{2})};
  }
}
static const char* kInputs[] = {"v5", "e3", "e0", "x2"};

template <typename V>
static std::string Show(yaclib::Result<V, SE>&& r) {
  switch (r.State()) {
    case yaclib::ResultState::Value:
      return "v" + std::to_string(std::move(r).Value().v);
    case yaclib::ResultState::Error:
      return "e" + std::to_string(std::move(r).Error().code);
    case yaclib::ResultState::Exception:
      try {
        std::rethrow_exception(std::move(r).Exception());
      } catch (const TagExc& e) {
        return "x" + std::to_string(e.tag);
      } catch (...) {
        return "x?";
      }
    default:
      return "empty";
  }
}

static yaclib::IExecutorPtr g_manual;

template <typename V, typename Fn>
static void Cell(const char* family, const char* spelling, char cls) {
  for (int in = 0; in != 4; ++in) {
    for (int form = 0; form != 4; ++form) {
      g_inv = 0;
      std::string fin;
      const char* fname;
      if (form == 0) {
        fname = "inline";
        auto f = yaclib::MakeFuture<V, SE>(Input<V>(in)).ThenInline(Fn{});
        fin = Show<V>(std::move(f).Get());
      } else if (form == 1) {
        fname = "exec";
        auto f = yaclib::MakeFuture<V, SE>(Input<V>(in)).Then(*g_manual, Fn{});
        (void)static_cast<yaclib::ManualExecutor&>(*g_manual).Drain();
        fin = Show<V>(std::move(f).Get());
      } else if (form == 2) {
        fname = "lazy";
        auto f = yaclib::MakeTask<V, SE>(Input<V>(in)).ThenInline(Fn{}).ToFuture();
        fin = Show<V>(std::move(f).Get());
      } else {
        fname = "later";
        auto [f0, p] = yaclib::MakeContract<V, SE>();
        auto f = std::move(f0).ThenInline(Fn{});
        std::move(p).Set(Input<V>(in));
        fin = Show<V>(std::move(f).Get());
      }
      std::printf("spell %s %s %c %s %s inv=%d final=%s\n", family, spelling, cls, kInputs[in], fname, g_inv, fin.c_str());
    }
  }
}

template <typename V>
static void Family(const char* family) {
  using R = yaclib::Result<V, SE>;
  Cell<V, F<V, R>>(family, "R_val", 'R');
  Cell<V, F<V, R&&>>(family, "R_rref", 'R');
  Cell<V, F<V, const R&>>(family, "R_cref", 'R');
  Cell<V, FAutoRef<V>>(family, "R_autoref", 'R');
  Cell<V, FAuto<V>>(family, "R_auto", 'R');
  Cell<V, F<V, V>>(family, "V_val", 'V');
  Cell<V, F<V, V&&>>(family, "V_rref", 'V');
  Cell<V, F<V, const V&>>(family, "V_cref", 'V');
  Cell<V, FSame<V>>(family, "V_same", 'V');
  Cell<V, F<V, SE>>(family, "E_val", 'E');
  Cell<V, F<V, const SE&>>(family, "E_cref", 'E');
  Cell<V, F<V, std::exception_ptr>>(family, "X_val", 'X');
  Cell<V, F<V, const std::exception_ptr&>>(family, "X_cref", 'X');
}

int main() {
  g_manual = yaclib::MakeManual();
  Family<CV>("cv");
  Family<MV>("mv");
  std::printf("cells %d\n", 2 * 13 * 16);
  return 0;
}
