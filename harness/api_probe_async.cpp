// API instantiation sweep, area `async` (unique forms): async/{future,promise,contract,make,run,connect,wait,wait_for,
// wait_until}.hpp, exe/submit.hpp.  C++17-clean.  See api_probe.hpp for the conventions.
#include <yaclib/async/connect.hpp>
#include <yaclib/async/contract.hpp>
#include <yaclib/async/future.hpp>
#include <yaclib/async/make.hpp>
#include <yaclib/async/promise.hpp>
#include <yaclib/async/run.hpp>
#include <yaclib/async/wait.hpp>
#include <yaclib/async/wait_for.hpp>
#include <yaclib/async/wait_until.hpp>
#include <yaclib/exe/inline.hpp>
#include <yaclib/exe/manual.hpp>
#include <yaclib/util/detail/atomic_event.hpp>
#include <yaclib/util/detail/mutex_event.hpp>

#include "api_probe.hpp"
#include "api_probe_cb.hpp"

#include <array>
#include <chrono>
#include <deque>
#include <list>
#include <vector>

#ifndef API_PROBE_SMOKE_ONLY
namespace probe {
namespace {

using yaclib::Future;
using yaclib::FutureOn;
using yaclib::IExecutor;
using yaclib::MakeInline;
using yaclib::Promise;
using yaclib::Result;
using yaclib::StopError;
using yaclib::StopTag;

// ---- async/contract.hpp, async/promise.hpp ----------------------------------------------------------------------------
template <typename V, typename E>
void Contracts() {
  {
    yaclib::Contract<V, E> c = yaclib::MakeContract<V, E>();
    auto [f, p] = yaclib::MakeContract<V, E>();
    static_assert(std::is_same_v<decltype(f), Future<V, E>> && std::is_same_v<decltype(p), Promise<V, E>>);
    Sink(c, f, p);
  }
  {
    yaclib::ContractOn<V, E> c = yaclib::MakeContractOn<V, E>(Exec());
    auto [f, p] = yaclib::MakeContractOn<V, E>(Exec());
    static_assert(std::is_same_v<decltype(f), FutureOn<V, E>> && std::is_same_v<decltype(p), Promise<V, E>>);
    Sink(c, f, p);
  }
  // every way to fulfil a Promise
  auto promise = [] {
    auto [f, p] = yaclib::MakeContract<V, E>();
    std::move(f).Detach();
    return std::move(p);
  };
  Promise<V, E> def;  // Promise()
  Promise<V, E> moved{promise()};
  def = std::move(moved);
  Sink(def.Valid(), def.GetCore());
  if constexpr (std::is_void_v<V>) {
    std::move(def).Set();
    promise().Set(yaclib::Unit{});
    promise().Set(std::in_place);
  } else {
    std::move(def).Set(Make<V>());
    if constexpr (std::is_copy_constructible_v<V>) {
      V v = Make<V>();
      promise().Set(v);
      promise().Set(std::as_const(v));
    }
    promise().Set(std::in_place, Make<V>());
  }
  promise().Set(StopTag{});
  promise().Set(E{StopTag{}});
  promise().Set(std::make_exception_ptr(0));
  promise().Set(Build<Result<V, E>>::Do());  // Result&&
  if constexpr (std::is_copy_constructible_v<Result<V, E>>) {
    auto r = Build<Result<V, E>>::Do();
    promise().Set(r);  // const Result&
  }
  Promise<V, E> explicit_core{yaclib::detail::UniqueCorePtr<V, E>{}};  // "unsafe but internal" constructor
  Sink(explicit_core.Valid());
}

void ContractsMisc() {
  auto [f0, p0] = yaclib::MakeContract();  // defaults: void, StopError
  auto [f1, p1] = yaclib::MakeContractOn(Exec());
  auto [f2, p2] = yaclib::MakeContract<int>();
  auto [f3, p3] = yaclib::MakeContractOn<int>(Exec());
  static_assert(std::is_same_v<decltype(f0), Future<>> && std::is_same_v<decltype(f1), FutureOn<>> &&
                std::is_same_v<decltype(f2), Future<int>> && std::is_same_v<decltype(f3), FutureOn<int>>);
  // in-place construction from several arguments; an immovable value
  auto [fs, ps] = yaclib::MakeContract<std::string>();
  std::move(ps).Set(std::size_t{3}, 'x');
  auto [fi, pi] = yaclib::MakeContract<Immovable>();
  std::move(pi).Set(7);
  const Result<Immovable>* r = std::as_const(fi).Get();
  Sink(r, std::as_const(fi).Touch().Ok().x, fi.Ready(), fi.Valid());
  yaclib::Wait(fi);
  std::move(fi).Detach();
  Sink(f0, f1, f2, f3, fs, p0, p1, p2, p3);
}

#ifdef API_PROBE_KNOWN_5
// KNOWN_5 (a): a value type that is a standard container of a move-only type (std::vector<std::unique_ptr<T>>, ...) cannot be used
// with Future / Promise / Task at all: std::is_copy_constructible_v<std::vector<MoveOnly>> is true (unconstrained copy constructor),
// detail::ResultCore<V, E>::Impl (result_core.hpp:63) takes its copy branch and the copy does not instantiate ("use of deleted
// function MoveOnly(const MoveOnly&)" from the virtual UniqueCore<V, E>::Here).  notes/api_probe.md #5.
void Known5() {
  auto [f, p] = yaclib::MakeContract<std::vector<MoveOnly>>();
  std::move(p).Set();
  Sink(f);
}
#endif

// ---- async/future.hpp: the non-template members ------------------------------------------------------------------------
template <template <typename, typename> class H, typename V, typename E>
void FutureMembers() {
  using F = H<V, E>;
  F def;                         // default constructor: not Valid
  F f = Build<F>::Do();
  F moved{std::move(f)};
  f = std::move(moved);
  Sink(f.Valid(), f.Ready());
  const F& cf = f;
  const Result<V, E>* got = cf.Get();        // Get() const&
  const Result<V, E>& touched = cf.Touch();  // Touch() const&
  Sink(got, touched, f.GetCore(), f.GetHandle());
  static_assert(std::is_same_v<typename F::Handle, yaclib::detail::UniqueHandle>);
  static_assert(std::is_same_v<typename F::Core, yaclib::detail::UniqueCore<V, E>>);
  Result<V, E> r1 = std::move(f).Get();  // Get() &&
  f = Build<F>::Do();
  Result<V, E> r2 = std::move(f).Touch();  // Touch() &&
  f = Build<F>::Do();
  std::move(f).Detach();  // Detach() &&
  Sink(r1, r2, def.Valid());
  if constexpr (std::is_same_v<F, FutureOn<V, E>>) {
    Future<V, E> off = Build<F>::Do().On(nullptr);  // FutureOn::On(nullptr)
    Sink(off);
  }
  // slicing to the base is how Connect / Split / WaitGroup::Consume take futures
  yaclib::FutureBase<V, E>&& base = Build<F>::Do();
  Sink(base.Valid());
  F from_core{yaclib::detail::UniqueCorePtr<V, E>{}};  // the public constructor from a core
  Sink(from_core.Valid());
}

template <typename E>
void FutureMembersAllV() {
  FutureMembers<Future, void, E>();
  FutureMembers<Future, int, E>();
  FutureMembers<Future, std::string, E>();
  FutureMembers<Future, MoveOnly, E>();
  FutureMembers<Future, Pinned, E>();
  FutureMembers<FutureOn, void, E>();
  FutureMembers<FutureOn, int, E>();
  FutureMembers<FutureOn, std::string, E>();
  FutureMembers<FutureOn, MoveOnly, E>();
  FutureMembers<FutureOn, Pinned, E>();
  Contracts<void, E>();
  Contracts<int, E>();
  Contracts<std::string, E>();
  Contracts<MoveOnly, E>();
  Contracts<Pinned, E>();
}
template void FutureMembersAllV<StopError>();
template void FutureMembersAllV<UserError>();

// the overloads the library deletes on purpose (future.hpp: `void Get() & = delete; void Touch() & = delete;` + const&&)
template <typename F, typename = void>
struct CanGetLvalue : std::false_type {};
template <typename F>
struct CanGetLvalue<F, std::void_t<decltype(std::declval<F&>().Get())>> : std::true_type {};
template <typename F, typename = void>
struct CanTouchLvalue : std::false_type {};
template <typename F>
struct CanTouchLvalue<F, std::void_t<decltype(std::declval<F&>().Touch())>> : std::true_type {};
template <typename F, typename = void>
struct CanGetConstRvalue : std::false_type {};
template <typename F>
struct CanGetConstRvalue<F, std::void_t<decltype(std::declval<const F&&>().Get())>> : std::true_type {};
static_assert(!CanGetLvalue<Future<int>>::value, "API_PROBE_DELETED: Future::Get() & is deleted");
static_assert(!CanTouchLvalue<Future<int>>::value, "API_PROBE_DELETED: Future::Touch() & is deleted");
static_assert(!CanGetConstRvalue<Future<int>>::value, "API_PROBE_DELETED: Future::Get() const&& is deleted");
static_assert(CanGetLvalue<const Future<int>>::value && CanTouchLvalue<const FutureOn<int>>::value);
static_assert(!std::is_copy_constructible_v<Future<int>> && !std::is_copy_assignable_v<Promise<int>>);

// ---- async/make.hpp -----------------------------------------------------------------------------------------------------
template <typename E>
void MakeFutures() {
  static_assert(std::is_same_v<decltype(yaclib::MakeFuture()), Future<void, StopError>>);
  static_assert(std::is_same_v<decltype(yaclib::MakeFuture(1)), Future<int, StopError>>);
  static_assert(std::is_same_v<decltype(yaclib::MakeFuture(yaclib::Unit{})), Future<void, StopError>>);
  static_assert(std::is_same_v<decltype(yaclib::MakeFuture<void, E>()), Future<void, E>>);
  static_assert(std::is_same_v<decltype(yaclib::MakeFuture<yaclib::Unit, E>(std::string{})), Future<std::string, E>>);
  Sink(yaclib::MakeFuture(), yaclib::MakeFuture(1), yaclib::MakeFuture(yaclib::Unit{}), yaclib::MakeFuture(std::string{"s"}),
       yaclib::MakeFuture(MoveOnly{}), yaclib::MakeFuture(Pinned{1}));
  int lvalue = 1;
  const std::string clvalue = "s";
  Sink(yaclib::MakeFuture(lvalue), yaclib::MakeFuture(clvalue));
  Sink(yaclib::MakeFuture<void, E>(), yaclib::MakeFuture<yaclib::Unit, E>(), yaclib::MakeFuture<yaclib::Unit, E>(1),
       yaclib::MakeFuture<yaclib::Unit, E>(Pinned{1}));
  Sink(yaclib::MakeFuture<int, E>(1), yaclib::MakeFuture<double, E>(1), yaclib::MakeFuture<std::string, E>("s"),
       yaclib::MakeFuture<std::string, E>(std::size_t{3}, 'x'), yaclib::MakeFuture<MoveOnly, E>(MoveOnly{}),
       yaclib::MakeFuture<MoveOnly, E>(1), yaclib::MakeFuture<Pinned, E>(1), yaclib::MakeFuture<Pinned, E>(Pinned{1}));
  // failed futures
  Sink(yaclib::MakeFuture<int, E>(StopTag{}), yaclib::MakeFuture<int, E>(E{StopTag{}}), yaclib::MakeFuture<int, E>(std::make_exception_ptr(1)),
       yaclib::MakeFuture<void, E>(StopTag{}), yaclib::MakeFuture<void, E>(E{StopTag{}}), yaclib::MakeFuture<void, E>(std::make_exception_ptr(1)),
       yaclib::MakeFuture<Pinned, E>(StopTag{}), yaclib::MakeFuture<void, E>(yaclib::Unit{}),
       yaclib::MakeFuture<int, E>(Result<int, E>{1}), yaclib::MakeFuture<void, E>(Result<void, E>{StopTag{}}));
}
template void MakeFutures<StopError>();
template void MakeFutures<UserError>();

// ---- async/run.hpp ---------------------------------------------------------------------------------------------------------
template <typename E, typename R>
void RunWith() {
  Sink(yaclib::Run<E>(Fn<R>{}), yaclib::Run<E>(Exec(), Fn<R>{}));
  // the first step may also take the (always successful) Result<void, E> or a Unit
  Sink(yaclib::Run<E>(Fn<R, Result<void, E>>{}), yaclib::Run<E>(Exec(), Fn<R, Result<void, E>&&>{}));
  Sink(yaclib::Run<E>(Fn<R, yaclib::Unit>{}), yaclib::Run<E>(Exec(), Fn<R, yaclib::Unit>{}));
}
template <typename E, typename U>
void RunRets() {
  RunWith<E, U>();
  RunWith<E, Result<U, E>>();
  RunWith<E, Future<U, E>>();
  RunWith<E, FutureOn<U, E>>();
  RunWith<E, yaclib::Task<U, E>>();
  if constexpr (kCopyable<U, E>) {
    RunWith<E, yaclib::SharedFuture<U, E>>();
    RunWith<E, yaclib::SharedFutureOn<U, E>>();
  }
}
template <typename E>
void Runs() {
  RunRets<E, void>();
  RunRets<E, int>();
  RunRets<E, std::string>();
  RunRets<E, MoveOnly>();
  RunRets<E, Pinned>();
  static_assert(std::is_same_v<decltype(yaclib::Run<E>(Fn<int>{})), Future<int, E>>);
  static_assert(std::is_same_v<decltype(yaclib::Run<E>(Exec(), Fn<int>{})), FutureOn<int, E>>);
  static_assert(std::is_same_v<decltype(yaclib::Run<E>(Fn<Future<Pinned, E>>{})), Future<Pinned, E>>);
}
template void Runs<StopError>();
template void Runs<UserError>();

template <typename V, typename E>
void AsyncContracts() {
  Sink(yaclib::AsyncContract<V, E>(Fn<void, Promise<V, E>>{}), yaclib::AsyncContract<V, E>(Fn<void, Promise<V, E>&&>{}),
       yaclib::AsyncContract<V, E>(Exec(), Fn<void, Promise<V, E>>{}), yaclib::AsyncContract<V, E>(Exec(), Fn<void, Promise<V, E>&&>{}),
       yaclib::AsyncContract<V, E>(MutFn<void, Promise<V, E>>{}), yaclib::AsyncContract<V, E>(Exec(), FreeFn<void, Promise<V, E>>));
  static_assert(std::is_same_v<decltype(yaclib::AsyncContract<V, E>(Fn<void, Promise<V, E>>{})), Future<V, E>>);
  static_assert(std::is_same_v<decltype(yaclib::AsyncContract<V, E>(Exec(), Fn<void, Promise<V, E>>{})), FutureOn<V, E>>);
}
template <typename E>
void AsyncContractsAllV() {
  AsyncContracts<void, E>();
  AsyncContracts<int, E>();
  AsyncContracts<std::string, E>();
  AsyncContracts<MoveOnly, E>();
  AsyncContracts<Pinned, E>();
}
template void AsyncContractsAllV<StopError>();
template void AsyncContractsAllV<UserError>();

void RunDefaults() {
  Sink(yaclib::Run([] {
  }));
  Sink(yaclib::Run(Exec(), [] {
    return 1;
  }));
  Sink(yaclib::AsyncContract([](Promise<> p) {
    std::move(p).Set();
  }));
  Sink(yaclib::AsyncContract<int>(Exec(), [](Promise<int> p) {
    std::move(p).Set(1);
  }));
  Immovable captured{1};
  Sink(yaclib::Run([&captured] {
    return captured.x;
  }));
  Sink(yaclib::Run(FreeFn<void>), yaclib::Run(Exec(), &FreeFn<int>));
}

// ---- async/connect.hpp (unique forms) ----------------------------------------------------------------------------------------
template <typename V, typename E>
void Connects() {
  {
    auto [f, p] = yaclib::MakeContract<V, E>();
    yaclib::Connect(Build<Future<V, E>>::Do(), std::move(p));
    Sink(f);
  }
  {
    auto [f, p] = yaclib::MakeContract<V, E>();
    yaclib::Connect(Build<FutureOn<V, E>>::Do(), std::move(p));
    Sink(f);
  }
  {
    auto [f, p] = yaclib::MakeContractOn<V, E>(Exec());
    auto [f1, p1] = yaclib::MakeContract<V, E>();
    yaclib::Connect(std::move(f), std::move(p1));  // not yet fulfilled source
    Sink(f1, p);
  }
}
template <typename E>
void ConnectsAllV() {
  Connects<void, E>();
  Connects<int, E>();
  Connects<std::string, E>();
  Connects<MoveOnly, E>();
  Connects<Pinned, E>();
}
template void ConnectsAllV<StopError>();
template void ConnectsAllV<UserError>();

// ---- async/wait.hpp, wait_for.hpp, wait_until.hpp -------------------------------------------------------------------------------
template <typename... Event, typename... F>
void WaitAll3(F&... fs) {
  using namespace std::chrono_literals;
  yaclib::Wait<Event...>(fs...);
  Sink(yaclib::WaitFor<Event...>(1ns, fs...), yaclib::WaitFor<Event...>(std::chrono::duration<double>{0.001}, fs...),
       yaclib::WaitUntil<Event...>(std::chrono::steady_clock::now(), fs...),
       yaclib::WaitUntil<Event...>(std::chrono::system_clock::now() + 1ms, fs...));
}
template <typename... Event, typename It>
void WaitRange3(It begin, It end, std::size_t count) {
  using namespace std::chrono_literals;
  yaclib::Wait<Event...>(begin, end);
  yaclib::Wait<Event...>(begin, count);
  Sink(yaclib::WaitFor<Event...>(1ns, begin, end), yaclib::WaitFor<Event...>(1ms, begin, count),
       yaclib::WaitUntil<Event...>(std::chrono::steady_clock::now(), begin, end),
       yaclib::WaitUntil<Event...>(std::chrono::system_clock::now(), begin, count));
}

template <typename V, typename E>
void Waits() {
  Future<V, E> f1 = Build<Future<V, E>>::Do();
  Future<V, E> f2 = Build<Future<V, E>>::Do();
  FutureOn<V, E> fo = Build<FutureOn<V, E>>::Do();
  Future<int, E> other = Build<Future<int, E>>::Do();
  WaitAll3(f1);
  WaitAll3(fo);
  WaitAll3(f1, f2);
  WaitAll3(f1, fo, other);  // mixed handle kinds and value types
  yaclib::FutureBase<V, E>& base = f1;
  WaitAll3(base);
  std::vector<Future<V, E>> vec;
  vec.push_back(std::move(f1));
  vec.push_back(std::move(f2));
  WaitRange3(vec.begin(), vec.end(), vec.size());
  WaitRange3(vec.data(), vec.data() + vec.size(), vec.size());
  std::array<FutureOn<V, E>, 1> arr{std::move(fo)};
  WaitRange3(arr.begin(), arr.end(), arr.size());
  std::deque<Future<V, E>> deq;
  deq.push_back(Build<Future<V, E>>::Do());
  WaitRange3(deq.begin(), deq.end(), deq.size());
  std::list<Future<V, E>> lst;  // not random access: only the (begin, count) forms are documented to work
  lst.push_back(Build<Future<V, E>>::Do());
  yaclib::Wait(lst.begin(), lst.size());
  Sink(yaclib::WaitFor(std::chrono::nanoseconds{1}, lst.begin(), lst.size()),
       yaclib::WaitUntil(std::chrono::steady_clock::now(), lst.begin(), lst.size()));
}
template <typename E>
void WaitsAllV() {
  Waits<void, E>();
  Waits<int, E>();
  Waits<Pinned, E>();
}
template void WaitsAllV<StopError>();
template void WaitsAllV<UserError>();

// the Event template parameter of Wait* is part of the signature: the library's two events
void WaitEvents() {
  auto f = yaclib::MakeFuture(1);
  auto g = yaclib::MakeFuture();
  WaitAll3<yaclib::detail::MutexEvent>(f);
  WaitAll3<yaclib::detail::MutexEvent>(f, g);
  WaitAll3<yaclib::detail::DefaultEvent>(f, g);
  yaclib::Wait<yaclib::detail::AtomicEvent>(f);
  yaclib::Wait<yaclib::detail::AtomicEvent>(f, g);
  std::vector<Future<int>> vec;
  vec.push_back(std::move(f));
  WaitRange3<yaclib::detail::MutexEvent>(vec.begin(), vec.end(), vec.size());
  yaclib::Wait<yaclib::detail::AtomicEvent>(vec.begin(), vec.end());
  yaclib::Wait<yaclib::detail::AtomicEvent>(vec.begin(), vec.size());
}

// a const Future is not waitable (type_traits.hpp is_waitable_v): documented constraint, removed by SFINAE
template <typename F, typename = void>
struct CanWait : std::false_type {};
template <typename F>
struct CanWait<F, std::void_t<decltype(yaclib::Wait(std::declval<F&>()))>> : std::true_type {};
static_assert(CanWait<Future<int>>::value && !CanWait<const Future<int>>::value, "API_PROBE_DELETED: Wait(const Future&) is SFINAE-d out");

}  // namespace
}  // namespace probe
#endif  // API_PROBE_SMOKE_ONLY

int api_probe_async(int argc) {
  (void)argc;
#ifndef API_PROBE_SMOKE_ONLY
  using namespace probe;
  if (argc > 1000) {
    ContractsMisc();
    FutureMembersAllV<StopError>();
    MakeFutures<StopError>();
    Runs<StopError>();
    AsyncContractsAllV<StopError>();
    RunDefaults();
    ConnectsAllV<StopError>();
    WaitsAllV<StopError>();
    WaitEvents();
  }
#endif
  // smoke: a pipeline over the inline and the manual executor
  yaclib::ManualExecutor manual;
  int seen = 0;
  auto f = yaclib::Run(manual, [] {
             return 20;
           })
             .ThenInline([](int x) {
               return yaclib::MakeFuture(x + 1);
             })
             .Then([](yaclib::Result<int>&& r) {
               return std::move(r).Ok() * 2;
             });
  std::move(f).Detach([&](int x) {
    seen = x;
  });
  while (manual.Drain() != 0) {
  }
  auto g = yaclib::MakeFuture<int>(yaclib::StopTag{}).ThenInline([](yaclib::StopError) {
    return 7;
  });
  return (seen == 42 && std::move(g).Get().Ok() == 7) ? 0 : 1;
}

#ifndef API_PROBE_NO_MAIN
int main(int argc, char**) {
  return api_probe_async(argc);
}
#endif
