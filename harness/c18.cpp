// C18 harness: the yaclib_std:: locks, condition variable, thread and thread-local pointer of the FIBER backend,
// driven directly (they are the code under test), every scheduler choice enumerated by the vx explorer.
//
// A scenario = a primitive kind + one op list per fiber (2-4 fibers).  Every op is bracketed by the harness events
//   f<i> E call <op> [arg] @<virtual time>      ...library hook lines (M ...)...      f<i> E ret <op> <result> @<time>
// Between `call` and `ret` the harness suppresses *preemptions* (not the blocking switches inside the primitive), and
// offers one preemption point right after `ret`; a switch between the wrapper's leading/trailing InjectFault and the
// implementation touches no shared state, so nothing is lost, and every trace line is attributed to the scheduling
// step in which its effect happened (several primitives have no trace hook of their own).
//
// Trace decorations added here (vx.hpp is shared and not edited): every `M` line ends with `@<time>`, `notify_one` lines
// carry `idx=<picked index in queue order>`, `park_timed` lines carry `j=<jitter drawn by SleepPreemptive>`; any other
// random draw of the library is reported as `f E coin <v>` (there is none any more: `SharedMutex::unlock` drew one
// until 5d29c51 — the trace validator rejects such a line).
//
// Monitors (independent of the Lean model): holder compatibility at every acquisition, try/timed results against the
// holder counters and the virtual clock, timed waits / sleeps not early, a cv waiter returns without timeout only after a
// notify issued while it was blocked, join returns after the thread function finished, TLS values are per fiber, and —
// when an execution deadlocks — whether a fiber is parked on a lock that its request is compatible with.
#include <common/vx.hpp>

#include <yaclib/fault/inject.hpp>

#include <algorithm>
#include <chrono>
#include <sstream>
#include <yaclib_std/chrono>
#include <yaclib_std/condition_variable>
#include <yaclib_std/mutex>
#include <yaclib_std/shared_mutex>
#include <yaclib_std/thread>
#include <yaclib_std/thread_local>

namespace {

using ns = std::chrono::nanoseconds;
using Clock = yaclib_std::chrono::steady_clock;
constexpr int kMaxF = 4;
constexpr unsigned kJitter = 2;  // SetFaultSleepTime(kJitter): SleepPreemptive draws its jitter from {0, 1}

std::uint64_t Now() { return yaclib::fault::Scheduler::GetScheduler()->GetTimeNs(); }
std::string At() { return " @" + std::to_string(Now()); }

// the `_until` forms take their deadline from one of the three yaclib_std::chrono clocks, selected by the last digit of the
// op's argument (0 steady_clock, 1 system_clock, 2 high_resolution_clock); the rest of the argument is the duration
const char* ClockName(int c) { return c == 0 ? "steady_clock" : (c == 1 ? "system_clock" : "high_resolution_clock"); }
template <typename F>
auto WithClock(int c, F&& f) {
  if (c == 0) return f(yaclib_std::chrono::steady_clock{});
  if (c == 1) return f(yaclib_std::chrono::system_clock{});
  return f(yaclib_std::chrono::high_resolution_clock{});
}
// runs `wait(deadline)` with deadline = Clock::now() + d and tells whether, by the SAME clock, it returned before the deadline
template <typename Wait>
std::pair<bool, bool> UntilBy(int c, long d, Wait&& wait) {
  return WithClock(c, [&](auto clock) {
    using C = decltype(clock);
    auto dl = C::now() + ns{d};
    bool r = wait(dl);
    return std::pair<bool, bool>{r, C::now() < dl};
  });
}

struct Op {
  std::string k;  // L T U F FU | LS TS US FS FSU | W WF WU WP WPF WQ WQF WQU SF N1 NA | S SU | J E | VS VG VC (thread-local)
  long a = 0;
};

struct Scenario {
  std::string prim;  // mutex timed rec rect shared sharedt cv thread tls
  std::vector<std::vector<Op>> progs;
  std::string Header() const {
    std::string h = "fibersync prim=" + prim;
    if (prim == "tls") h += " tlsinit=-1,-1,-1,-1,7,6";  // initialisers of the thread-local variables (see gTls*)
    for (std::size_t i = 0; i < progs.size(); ++i) {
      h += " f" + std::to_string(i) + "=";
      if (progs[i].empty()) h += "-";
      for (std::size_t j = 0; j < progs[i].size(); ++j) {
        h += (j ? "," : "") + progs[i][j].k;
        static const std::set<std::string> kWithArg = {"F", "FS", "FU", "FSU", "S", "SU", "WF", "WU", "WPF", "WQF", "WQU", "J", "VS", "VC"};
        if (progs[i][j].a != 0 || kWithArg.count(progs[i][j].k) != 0)
          h += std::to_string(progs[i][j].a);
      }
    }
    return h;
  }
};

Scenario Parse(const std::string& prim, std::initializer_list<const char*> progs) {
  Scenario sc;
  sc.prim = prim;
  for (const char* p : progs) {
    std::vector<Op> ops;
    std::stringstream ss(p);
    std::string tok;
    while (std::getline(ss, tok, ',')) {
      if (tok.empty() || tok == "-") continue;
      std::size_t i = 0;
      while (i < tok.size() && !(tok[i] >= '0' && tok[i] <= '9')) ++i;
      // N1 / NA keep their digit
      if (tok == "N1" || tok == "NA") {
        ops.push_back({tok, 0});
      } else {
        ops.push_back({tok.substr(0, i), i < tok.size() ? std::atol(tok.c_str() + i) : 0});
      }
    }
    sc.progs.push_back(ops);
  }
  return sc;
}

// ------------------------------------------------------------------------------------------------ monitors
struct Mon {
  int holdX[kMaxF]{}, holdS[kMaxF]{};
  char in_op[kMaxF]{};  // 0 | 'X' exclusive acquire | 'S' shared acquire | 'W' cv wait | 'J' join | 'Z' sleep
  bool got_notify[kMaxF]{};
  bool fn_done[kMaxF]{};
  bool recursive = false;
  std::string howX[kMaxF];  // which call the exclusive hold came from
  std::vector<std::pair<std::string, std::string>> bad;  // (kind, message), first of each kind
  void Bad(const std::string& kind, const std::string& msg) {
    for (auto& b : bad)
      if (b.first == kind) return;
    bad.emplace_back(kind, msg);
  }
  std::string Holders() const {
    std::string s;
    for (int j = 0; j < kMaxF; ++j) {
      if (holdX[j]) s += " f" + std::to_string(j) + ":X" + (holdX[j] > 1 ? std::to_string(holdX[j]) : "") + "(" + howX[j] + ")";
      if (holdS[j]) s += " f" + std::to_string(j) + ":S" + (holdS[j] > 1 ? std::to_string(holdS[j]) : "");
    }
    return s.empty() ? " none" : s;
  }
  bool Compatible(int i, bool shared) const {
    for (int j = 0; j < kMaxF; ++j) {
      if (j == i && recursive) continue;
      if (shared ? holdX[j] != 0 : (holdX[j] != 0 || holdS[j] != 0)) return false;
    }
    return true;
  }
  void Acquired(int i, bool shared, const std::string& how) {
    if (!Compatible(i, shared)) {
      Bad("excl", "incompatible holders: f" + std::to_string(i) + " acquired " + (shared ? "shared" : "exclusive") +
                    " by " + how + " while held by" + Holders());
    }
    (shared ? holdS : holdX)[i]++;
    if (!shared) howX[i] = how;
  }
};

Mon gMon;
std::unordered_map<unsigned long long, bool> gSuppress;  // fiber id -> inside an op (no preemption)
bool gNotifyPick = false;                                 // the next pick belongs to a NotifyOne
bool gJitterPending = false;                              // the next rand draw is SleepPreemptive's jitter

void Call(const std::string& s) {
  gSuppress[vx::gCtx->CurId()] = true;
  vx::Ev("call " + s + At());
}
void Ret(const std::string& s) {
  vx::Ev("ret " + s + At());
  gSuppress[vx::gCtx->CurId()] = false;
}
void Point() { yaclib::InjectFault(); }

void InstallLocalHooks(vx::Ctx* ctx) {
  auto& h = yaclib::verif::gHooks;
  h.preempt = [](void* c, int others) {
    auto* ctx = static_cast<vx::Ctx*>(c);
    auto it = gSuppress.find(ctx->CurId());
    if (it != gSuppress.end() && it->second) return 0;
    return ctx->OnPreempt(others);
  };
  h.pick = [](void* c, unsigned n) {
    auto* ctx = static_cast<vx::Ctx*>(c);
    int r = ctx->OnPick(n);
    if (gNotifyPick) {
      gNotifyPick = false;
      if (!ctx->trace.empty()) ctx->trace.back() += " idx=" + std::to_string(r);
    }
    return r;
  };
  h.rand = [](void* c, unsigned long long max) -> long long {
    auto* ctx = static_cast<vx::Ctx*>(c);
    if (gJitterPending) {  // SleepPreemptive, right after the park_timed report
      gJitterPending = false;
      int r = ctx->Choose('x', static_cast<int>(max));
      if (!ctx->trace.empty()) ctx->trace.back() += " j=" + std::to_string(r);
      return r;
    }
    vx::Ev("coin " + std::to_string(max));  // no other draw is expected
    return 0;
  };
  h.on_sync = [](void* c, const void* obj, int op, int res) {
    auto* ctx = static_cast<vx::Ctx*>(c);
    std::size_t before = ctx->trace.size();
    ctx->OnSync(obj, op, res);
    if (ctx->trace.size() > before) {
      ctx->trace.back() += At();
      if (op == yaclib::verif::kNotifyOne && res == 1) gNotifyPick = true;
      if (op == yaclib::verif::kParkTimed) gJitterPending = true;
    }
  };
}

// ------------------------------------------------------------------------------------------------ peeking
struct PeekM : yaclib::detail::fiber::Mutex {
  static const void* Q(yaclib::detail::fiber::Mutex& m) { return &(m.*(&PeekM::_queue)); }
};
struct PeekR : yaclib::detail::fiber::RecursiveMutex {
  static const void* Q(yaclib::detail::fiber::RecursiveMutex& m) { return &(m.*(&PeekR::_queue)); }
};
struct PeekS : yaclib::detail::fiber::SharedMutex {
  static const void* SQ(yaclib::detail::fiber::SharedMutex& m) { return &(m.*(&PeekS::_shared_queue)); }
  static const void* EQ(yaclib::detail::fiber::SharedMutex& m) { return &(m.*(&PeekS::_exclusive_queue)); }
};

// ------------------------------------------------------------------------------------------------ execution
static int gSlots[8];
// the thread-local variables, numbered in declaration order (= their slot indices with the one global counter)
constexpr int kTlsVars = 6;
constexpr int kTlsInit[kTlsVars] = {-1, -1, -1, -1, 7, 6};  // -1 = declared without initialiser
static YACLIB_THREAD_LOCAL_PTR(int) gTlsP;                   // 0
static YACLIB_THREAD_LOCAL_PTR(int) gTlsQ;                   // 1
static YACLIB_THREAD_LOCAL_PTR(long) gTlsL;                  // 2: another pointee type
static YACLIB_THREAD_LOCAL_PTR(int) gTlsN;                   // 3
static YACLIB_THREAD_LOCAL_PTR(int) gTlsI{&gSlots[7]};       // 4: `thread_local int* i = &slot[7];`
static YACLIB_THREAD_LOCAL_PTR(int) gTlsJ{&gSlots[6]};       // 5

int TlsGet(int var) {
  int* p = nullptr;
  switch (var) {
    case 0: p = gTlsP.Get(); break;
    case 1: p = gTlsQ.Get(); break;
    case 2: p = reinterpret_cast<int*>(gTlsL.Get()); break;
    case 3: p = gTlsN.Get(); break;
    case 4: p = gTlsI.Get(); break;
    default: p = gTlsJ.Get(); break;
  }
  return p == nullptr ? -1 : static_cast<int>(p - gSlots);
}
void TlsSet(int var, int val) {
  int* p = val < 0 ? nullptr : &gSlots[val];
  switch (var) {
    case 0: gTlsP = p; break;
    case 1: gTlsQ = p; break;
    case 2: gTlsL = reinterpret_cast<long*>(p); break;
    case 3: gTlsN = p; break;
    case 4: gTlsI = p; break;
    default: gTlsJ = p; break;
  }
}
yaclib::detail::fiber::ThreadLocalPtrProxy<int>& TlsInt(int var) {
  switch (var) {
    case 0: return gTlsP;
    case 1: return gTlsQ;
    case 3: return gTlsN;
    case 4: return gTlsI;
    default: return gTlsJ;
  }
}

struct Env {
  const Scenario* sc = nullptr;
  std::vector<vx::Thread>* threads = nullptr;
  yaclib_std::condition_variable* cv = nullptr;
  yaclib_std::mutex* cvm = nullptr;
  bool flag = false;
  int tls_expect[kTlsVars][kMaxF];  // what the fiber last stored to the variable (-1 null), -2 = never stored
};

std::string F(int i) { return "f" + std::to_string(i); }

template <typename M>
void ExecLockOp(M& m, Env& env, int i, const Op& op) {
  auto& mon = gMon;
  constexpr bool kTimed = requires(M& x) { x.try_lock_for(ns{1}); };
  constexpr bool kShared = requires(M& x) { x.lock_shared(); };
  constexpr bool kSharedTimed = requires(M& x) { x.try_lock_shared_for(ns{1}); };
  const std::string& k = op.k;
  if (k == "L") {
    Call("lock");
    mon.in_op[i] = 'X';
    m.lock();
    mon.in_op[i] = 0;
    mon.Acquired(i, false, "lock");
    Ret("lock");
  } else if (k == "T") {
    Call("try_lock");
    bool r = m.try_lock();
    if (r) {
      mon.Acquired(i, false, "try_lock");
    } else if (mon.Compatible(i, false) && !(mon.holdX[i] || mon.holdS[i])) {
      mon.Bad("try_spurious", "try_lock returned false although nobody holds the lock");
    }
    Ret(std::string("try_lock ") + (r ? "1" : "0"));
  } else if (k == "U") {
    if (mon.holdX[i] == 0) {
      vx::Ev("skip unlock");
      return;
    }
    Call("unlock");
    mon.holdX[i]--;
    m.unlock();
    Ret("unlock");
  } else if (k == "F" || k == "FU") {
    if constexpr (kTimed) {
      auto t0 = Now();
      long d = k == "F" ? op.a : op.a - op.a % 10;
      int c = static_cast<int>(op.a % 10);
      bool avail = mon.Compatible(i, false);
      Call("try_lock_for " + std::to_string(d));
      mon.in_op[i] = 'X';
      bool r, early = false;
      if (k == "F") {
        r = m.try_lock_for(ns{d});
      } else {
        std::tie(r, early) = UntilBy(c, d, [&](auto dl) { return m.try_lock_until(dl); });
      }
      mon.in_op[i] = 0;
      const std::string name = k == "F" ? "try_lock_for" : std::string("try_lock_until(") + ClockName(c) + ")";
      if (r) {
        mon.Acquired(i, false, "try_lock_for");
      } else {
        if (Now() < t0 + static_cast<std::uint64_t>(d) || early) {
          mon.Bad("timed_early", name + " with duration " + std::to_string(d) + " returned false before its deadline (virtual " +
                                   std::to_string(Now()) + " vs " + std::to_string(t0 + d) + (early ? ", and by its own clock" : "") + ")");
        }
        if (avail) mon.Bad("try_spurious", name + " returned false although the lock was free when it was called");
      }
      Ret(std::string("try_lock_for ") + (r ? "1" : "0"));
    }
  } else if (k == "LS") {
    if constexpr (kShared) {
      Call("lock_shared");
      mon.in_op[i] = 'S';
      m.lock_shared();
      mon.in_op[i] = 0;
      mon.Acquired(i, true, "lock_shared");
      Ret("lock_shared");
    }
  } else if (k == "TS") {
    if constexpr (kShared) {
      Call("try_lock_shared");
      bool r = m.try_lock_shared();
      if (r) {
        mon.Acquired(i, true, "try_lock_shared");
      } else if (mon.Compatible(i, true) && !mon.holdX[i]) {
        mon.Bad("try_spurious", "try_lock_shared returned false although no exclusive holder exists");
      }
      Ret(std::string("try_lock_shared ") + (r ? "1" : "0"));
    }
  } else if (k == "US") {
    if constexpr (kShared) {
      if (mon.holdS[i] == 0) {
        vx::Ev("skip unlock_shared");
        return;
      }
      Call("unlock_shared");
      mon.holdS[i]--;
      m.unlock_shared();
      Ret("unlock_shared");
    }
  } else if (k == "FS" || k == "FSU") {
    if constexpr (kSharedTimed) {
      auto t0 = Now();
      long d = k == "FS" ? op.a : op.a - op.a % 10;
      int c = static_cast<int>(op.a % 10);
      bool avail = mon.Compatible(i, true);
      Call("try_lock_shared_for " + std::to_string(d));
      mon.in_op[i] = 'S';
      bool r, early = false;
      if (k == "FS") {
        r = m.try_lock_shared_for(ns{d});
      } else {
        std::tie(r, early) = UntilBy(c, d, [&](auto dl) { return m.try_lock_shared_until(dl); });
      }
      mon.in_op[i] = 0;
      const std::string name = k == "FS" ? "try_lock_shared_for" : std::string("try_lock_shared_until(") + ClockName(c) + ")";
      if (r) {
        mon.Acquired(i, true, "try_lock_shared_for");
      } else {
        if (Now() < t0 + static_cast<std::uint64_t>(d) || early) {
          mon.Bad("timed_early", name + " returned false before its deadline" + (early ? " (by its own clock)" : ""));
        }
        if (avail) mon.Bad("try_spurious", name + " returned false although no exclusive holder existed when it was called");
      }
      Ret(std::string("try_lock_shared_for ") + (r ? "1" : "0"));
    }
  }
}

void ExecCommon(Env& env, int i, const Op& op) {
  auto& mon = gMon;
  const std::string& k = op.k;
  if (k == "S" || k == "SU") {
    auto t0 = Now();
    long d = k == "S" ? op.a : op.a - op.a % 10;
    int c = static_cast<int>(op.a % 10);
    Call("sleep " + std::to_string(d));
    mon.in_op[i] = 'Z';
    bool early = false;
    if (k == "S") {
      yaclib_std::this_thread::sleep_for(ns{d});
    } else {
      early = UntilBy(c, d, [&](auto dl) { yaclib_std::this_thread::sleep_until(dl); return true; }).second;
    }
    mon.in_op[i] = 0;
    if (Now() < t0 + static_cast<std::uint64_t>(d) || early) {
      mon.Bad("timed_early", std::string(k == "S" ? "sleep_for" : "sleep_until(") + (k == "S" ? "" : ClockName(c)) +
                               (k == "S" ? "" : ")") + " with duration " + std::to_string(d) + " returned before its deadline" +
                               (early ? " (by its own clock)" : ""));
    }
    Ret("sleep");
  } else if (k == "J") {
    Call("join " + std::to_string(op.a));
    mon.in_op[i] = 'J';
    (*env.threads)[op.a].join();
    mon.in_op[i] = 0;
    if (!mon.fn_done[op.a]) {
      mon.Bad("join_early", "join(f" + std::to_string(op.a) + ") returned before the thread function finished");
    }
    Ret("join " + std::to_string(op.a));
  } else if (k == "E") {
    vx::Ev("work");
  } else if (k == "VS") {
    int var = static_cast<int>(op.a / 10), val = static_cast<int>(op.a % 10);
    if (val == 9) val = -1;
    Call("tls_set " + std::to_string(var) + " " + std::to_string(val));
    TlsSet(var, val);
    env.tls_expect[var][i] = val;
    Ret("tls_set");
  } else if (k == "VG") {
    int var = static_cast<int>(op.a);
    Call("tls_get " + std::to_string(var));
    int v = TlsGet(var);
    int want = env.tls_expect[var][i] == -2 ? kTlsInit[var] : env.tls_expect[var][i];
    if (v != want) {
      mon.Bad("tls", "thread-local pointer " + std::to_string(var) + " of f" + std::to_string(i) + " reads " +
                       (v < 0 ? std::string("nullptr") : "slot " + std::to_string(v)) + " but " +
                       (env.tls_expect[var][i] == -2
                          ? "this fiber never stored to it and its initialiser is " +
                              (want < 0 ? std::string("nullptr") : "slot " + std::to_string(want))
                          : "this fiber last stored " + (want < 0 ? std::string("nullptr") : "slot " + std::to_string(want))));
    }
    Ret("tls_get " + std::to_string(var) + " " + std::to_string(v));
  } else if (k == "VC") {
    // x_dst = x_src (pointer copy between two thread-local pointers): must change this fiber's x_dst only
    int dst = static_cast<int>(op.a / 10), src = static_cast<int>(op.a % 10);
    Call("tls_copy " + std::to_string(dst) + " " + std::to_string(src));
    TlsInt(dst) = TlsInt(src);
    env.tls_expect[dst][i] = env.tls_expect[src][i] == -2 ? kTlsInit[src] : env.tls_expect[src][i];
    Ret("tls_copy");
  }
}

void ExecCvOp(Env& env, int i, const Op& op) {
  auto& mon = gMon;
  auto& m = *env.cvm;
  auto& cv = *env.cv;
  const std::string& k = op.k;
  auto notify_mark = [&] {
    for (int j = 0; j < kMaxF; ++j)
      if (mon.in_op[j] == 'W') mon.got_notify[j] = true;
  };
  // form: 0 wait, 1 wait_for, 2 wait_until (clock c); pred: the library's predicate overload (loops inside the library).
  // returns true if it ended by timeout (predicate forms: if the predicate was still false)
  auto one_wait = [&](int form, long d, int c = 0, bool pred = false) -> bool {
    auto t0 = Now();
    Call(form == 0 ? std::string("wait") : (form == 1 ? "wait_for " : "wait_until ") + std::to_string(d));
    mon.holdX[i]--;
    mon.in_op[i] = 'W';
    mon.got_notify[i] = false;
    std::unique_lock<yaclib_std::mutex> lk{m, std::adopt_lock};
    bool timeout = false, early = false;
    auto flag = [&] { return env.flag; };
    if (form == 0) {
      if (pred) {
        cv.wait(lk, flag);
      } else {
        cv.wait(lk);
      }
    } else if (form == 1) {
      timeout = pred ? !cv.wait_for(lk, ns{d}, flag) : cv.wait_for(lk, ns{d}) == std::cv_status::timeout;
    } else {
      std::tie(timeout, early) = UntilBy(c, d, [&](auto dl) {
        return pred ? !cv.wait_until(lk, dl, flag) : cv.wait_until(lk, dl) == std::cv_status::timeout;
      });
      early = early && timeout;
    }
    lk.release();
    mon.in_op[i] = 0;
    mon.Acquired(i, false, "cv wait (re-lock)");
    const std::string name = std::string(form == 0 ? "wait" : (form == 1 ? "wait_for" : "wait_until(")) +
                             (form == 2 ? std::string(ClockName(c)) + ")" : "") + (pred ? " with predicate" : "");
    if (timeout) {
      if (Now() < t0 + static_cast<std::uint64_t>(d) || early) {
        mon.Bad("timed_early", name + " with duration " + std::to_string(d) + " reported timeout before its deadline" +
                                 (early ? " (by its own clock)" : ""));
      }
      if (pred && env.flag) mon.Bad("cv_pred", name + " returned false although the predicate is true");
    } else if (pred) {
      if (!env.flag) mon.Bad("cv_pred", name + " returned (true) although the predicate is false");
    } else if (!mon.got_notify[i]) {
      mon.Bad("cv_spurious", "cv wait returned without timeout although no notify was issued while it was blocked");
    }
    Ret(std::string(pred ? "wait_pred " : (form == 0 ? "wait " : "wait_for ")) + (timeout ? "timeout" : "notified"));
    return timeout;
  };
  if (k == "W" || k == "WF" || k == "WU" || k == "WQ" || k == "WQF" || k == "WQU") {
    if (mon.holdX[i] == 0) {
      vx::Ev("skip wait");
      return;
    }
    bool pred = k[1] == 'Q';
    bool until = k.back() == 'U';
    int form = (k == "W" || k == "WQ") ? 0 : (until ? 2 : 1);
    one_wait(form, until ? op.a - op.a % 10 : op.a, until ? static_cast<int>(op.a % 10) : 0, pred);
  } else if (k == "WP" || k == "WPF") {
    // while (!flag) wait: the canonical predicate loop, spelled out so that every wait is a separate op in the trace
    if (mon.holdX[i] == 0) {
      vx::Ev("skip wait");
      return;
    }
    while (!env.flag) {
      if (one_wait(k == "WPF" ? 1 : 0, op.a)) break;
      Point();
    }
  } else if (k == "SF") {
    env.flag = true;
    vx::Ev("set_flag");
  } else if (k == "N1") {
    Call("notify_one");
    notify_mark();
    cv.notify_one();
    Ret("notify_one");
  } else if (k == "NA") {
    Call("notify_all");
    notify_mark();
    cv.notify_all();
    Ret("notify_all");
  }
}

template <typename M>
void RunWith(const Scenario& sc, M* m, Env& env) {
  std::vector<vx::Thread> threads;
  env.threads = &threads;
  env.sc = &sc;
  std::vector<bool> joined_by_fiber(sc.progs.size(), false);
  for (auto& p : sc.progs)
    for (auto& op : p)
      if (op.k == "J") joined_by_fiber[op.a] = true;
  threads.reserve(sc.progs.size());
  for (std::size_t i = 0; i < sc.progs.size(); ++i) {
    threads.emplace_back(F(static_cast<int>(i)), [&, i] {
      int fi = static_cast<int>(i);
      for (auto& op : sc.progs[i]) {
        const std::string& k = op.k;
        if (k == "S" || k == "SU" || k == "J" || k == "E" || k == "VS" || k == "VG" || k == "VC") {
          ExecCommon(env, fi, op);
        } else if (k == "W" || k == "WF" || k == "WU" || k == "WP" || k == "WPF" || k == "WQ" || k == "WQF" || k == "WQU" || k == "SF" ||
                   k == "N1" || k == "NA") {
          ExecCvOp(env, fi, op);
        } else if constexpr (!std::is_same_v<M, void>) {
          ExecLockOp(*m, env, fi, op);
        }
        Point();
      }
      gMon.fn_done[i] = true;
      vx::Ev("done");
    });
  }
  for (std::size_t i = 0; i < threads.size(); ++i) {
    if (!joined_by_fiber[i]) threads[i].join();
  }
}

void RunScenario(const Scenario& sc) {
  gMon = Mon{};
  gSuppress.clear();
  gNotifyPick = false;
  gJitterPending = false;
  gMon.recursive = sc.prim == "rec" || sc.prim == "rect";
  auto& ctx = *vx::gCtx;
  Env env;
  for (int v = 0; v < kTlsVars; ++v)
    for (int i = 0; i < kMaxF; ++i) env.tls_expect[v][i] = -2;
  // the defaults map of the thread-local proxies is process-global and belongs to the constructors: put it back to the
  // initialisers so that an execution that (wrongly) wrote it cannot disturb the next one
  for (int v = 0; v < kTlsVars; ++v) {
    yaclib::detail::fiber::SetDefault(kTlsInit[v] < 0 ? nullptr : &gSlots[kTlsInit[v]], static_cast<std::uint64_t>(v));
  }
  if (sc.prim == "mutex" || sc.prim == "cv") {
    yaclib_std::mutex m;
    yaclib_std::condition_variable cv;
    ctx.NameObj(&m.GetImpl(), "m");  // the wait queue is the first member: same address, same name
    ctx.NameObj(static_cast<const void*>(&cv), "cq");
    env.cv = &cv;
    env.cvm = &m;
    RunWith(sc, &m, env);
  } else if (sc.prim == "timed") {
    yaclib_std::timed_mutex m;
    ctx.NameObj(&m.GetImpl(), "m");
    RunWith(sc, &m, env);
  } else if (sc.prim == "rec") {
    yaclib_std::recursive_mutex m;
    ctx.NameObj(PeekR::Q(m.GetImpl()), "rq");
    RunWith(sc, &m, env);
  } else if (sc.prim == "rect") {
    yaclib_std::recursive_timed_mutex m;
    ctx.NameObj(PeekR::Q(m.GetImpl()), "rq");
    RunWith(sc, &m, env);
  } else if (sc.prim == "shared") {
    yaclib_std::shared_mutex m;
    ctx.NameObj(PeekS::SQ(m.GetImpl()), "sq");
    ctx.NameObj(PeekS::EQ(m.GetImpl()), "eq");
    RunWith(sc, &m, env);
  } else if (sc.prim == "sharedt") {
    yaclib_std::shared_timed_mutex m;
    ctx.NameObj(PeekS::SQ(m.GetImpl()), "sq");
    ctx.NameObj(PeekS::EQ(m.GetImpl()), "eq");
    RunWith(sc, &m, env);
  } else {  // thread, tls
    RunWith<void>(sc, nullptr, env);
  }
}

// ------------------------------------------------------------------------------------------------ verdict of one run
std::string LastLineOf(const std::string& fiber) {
  auto& tr = vx::gCtx->trace;
  for (auto it = tr.rbegin(); it != tr.rend(); ++it)
    if (it->rfind(fiber + " ", 0) == 0) return *it;
  return "";
}

// returns (kind, message) of the first violation of this run, kind empty if fine
std::pair<std::string, std::string> Verdict(const Scenario& sc, bool done) {
  auto& mon = gMon;
  if (!done) {
    // every fiber is blocked.  A fiber parked inside an acquisition whose request is compatible with the holders the
    // harness knows about should have been woken: that is the property failing, anything else is a scenario deadlock.
    for (std::size_t i = 0; i < sc.progs.size(); ++i) {
      char w = mon.in_op[i];
      int fi = static_cast<int>(i);
      bool on_lock = w == 'X' || w == 'S';
      if (w == 'W') {
        // blocked inside cv.wait: either still on the cv queue (fine) or in the re-lock
        std::string last = LastLineOf(F(fi));
        on_lock = last.find(" M m park") != std::string::npos;
      }
      if (on_lock && mon.Compatible(fi, w == 'S')) {
        mon.Bad("lost_wakeup", "f" + std::to_string(i) + " is parked in " +
                                 (w == 'S' ? "a shared" : (w == 'W' ? "the re-lock of a cv wait, an exclusive" : "an exclusive")) +
                                 " acquisition forever although the lock is available (holders:" + mon.Holders() + ")");
      }
    }
    if (mon.bad.empty()) mon.Bad("deadlock", "deadlock: the scenario did not finish (every fiber blocked; holders:" + mon.Holders() + ")");
  }
  if (!mon.bad.empty()) {
    // deadlock-type findings first: they explain the others
    for (auto& b : mon.bad)
      if (b.first == "lost_wakeup") return b;
    return mon.bad[0];
  }
  if (!vx::gCtx->asserts.empty()) return {"assert", "library assertion fired: " + vx::gCtx->asserts[0]};
  return {"", ""};
}

// ------------------------------------------------------------------------------------------------ scenarios
std::vector<Scenario> Scenarios(std::uint64_t seed, int random_count) {
  std::vector<Scenario> out;
  auto add = [&](const char* prim, std::initializer_list<const char*> progs) { out.push_back(Parse(prim, progs)); };
  // ---- Mutex
  add("mutex", {"L,U", "L,U"});
  add("mutex", {"L,U", "L,U", "L,U"});
  add("mutex", {"T,U", "L,U", "T,U"});
  add("mutex", {"L,U,L,U", "T,U,L,U"});
  // ---- TimedMutex (regressions: D6 barging after the wake-up, fixed 32ae58e; D8 deadline == now, fixed 33a96a1)
  add("timed", {"L,U", "F50,U"});
  add("timed", {"L,U", "F50,U", "L,U"});
  add("timed", {"L,S30,U", "F20,U"});
  add("timed", {"L,U", "F0,U"});
  add("timed", {"F40,U", "F40,U", "T,U"});
  add("timed", {"L,U", "FU50,U", "T,U"});
  add("timed", {"L,S30,U", "FU21,U", "FU52,U"});
  add("timed", {"L,S40,U", "FU10000002,U"});
  // ---- RecursiveMutex / RecursiveTimedMutex (regression: D4 unlock never notified, fixed 4d75ee5)
  add("rec", {"L,L,U,U", "L,U"});
  add("rec", {"L,T,U,U", "T,U"});
  add("rec", {"L,U", "L,U", "T,U"});
  add("rect", {"L,L,U,U", "F50,U"});
  add("rect", {"L,U", "F30,U", "T,U"});
  add("rect", {"L,S100,U", "F20,F200,U,U"});
  add("rect", {"F0,U", "L,U"});
  add("rect", {"L,S30,U", "FU21,U", "FU52,FU12,U,U"});
  // ---- SharedMutex (regressions: D6, D7, fixed 5d29c51)
  add("shared", {"L,U", "LS,US"});
  add("shared", {"LS,US", "LS,US", "L,U"});
  add("shared", {"L,U", "LS,J2,US", "LS,US"});  // D7 regression: two parked readers, one writer unlock
  add("shared", {"LS,US", "L,U", "LS,US"});     // D6: reader barges between unlock_shared and the writer's wake-up
  add("shared", {"T,U", "TS,US", "L,U"});
  add("shared", {"LS,US", "TS,US", "T,U"});
  add("shared", {"L,U", "LS,US", "L,U"});  // D6: a writer barges between unlock and the reader's wake-up
  // ---- SharedTimedMutex (regression: D5 exclusive timed acquisition registered as shared, fixed 37d0a59)
  add("sharedt", {"LS,US", "F50,U", "TS,US"});
  add("sharedt", {"L,U", "FS50,US", "F50,U"});
  add("sharedt", {"F50,U", "LS,US", "L,U"});
  add("sharedt", {"L,S30,U", "FS10,US", "FS60,US"});
  add("sharedt", {"L,U", "FS50,US", "FS50,US", "L,U"});
  add("sharedt", {"L,S30,U", "F10,U"});
  // every timed member, every clock: try_lock_until / try_lock_shared_until on a free lock, next to readers, under a writer
  add("sharedt", {"FSU50,US", "LS,US", "TS,US"});
  add("sharedt", {"LS,S30,US", "FSU21,US", "FSU52,US"});
  add("sharedt", {"L,S30,U", "FSU21,US", "FSU62,US", "FU52,U"});
  add("sharedt", {"FU51,U", "FSU32,US", "T,U"});
  add("sharedt", {"L,S40,U", "FSU10000002,US", "FU10000002,U"});
  // an exclusive holder, a reader parked in lock_shared, a writer parked in try_lock_for, and a third-party reader that
  // takes shared mode in the unlock window and holds past the writer's deadline: everybody must still get in
  add("sharedt", {"L,U", "LS,US", "F40,U", "LS,S100,US"});
  add("sharedt", {"L,U", "LS,US", "F20,U", "TS,S60,US"});
  add("sharedt", {"L,U", "FS200,US", "F30,U", "LS,S80,US"});
  add("shared", {"L,U", "LS,US", "L,U", "LS,S50,US"});
  // ---- ConditionVariable + Mutex
  add("cv", {"L,WP,U", "L,SF,N1,U"});
  add("cv", {"L,WP,U", "L,WP,U", "L,SF,NA,U"});
  add("cv", {"L,WP,U", "L,WP,U", "L,SF,N1,U,N1"});
  add("cv", {"L,WF40,U", "L,N1,U"});
  add("cv", {"L,WPF30,U", "S10,L,SF,N1,U"});
  add("cv", {"L,WF20,U", "L,WF20,U", "N1"});
  add("cv", {"L,WF0,U", "N1"});
  add("cv", {"L,WU30,U", "L,N1,U"});
  add("cv", {"L,WU0,U", "N1"});
  // the library's predicate overloads, and deadlines from each of the three clocks
  add("cv", {"L,WQ,U", "L,SF,N1,U"});
  add("cv", {"L,WQ,U", "L,N1,U,L,SF,NA,U"});
  add("cv", {"L,WQF30,U", "L,N1,U", "S10,L,SF,N1,U"});
  add("cv", {"L,WQF20,U", "L,N1,U"});
  add("cv", {"L,WQU41,U", "L,N1,U", "L,SF,N1,U"});
  add("cv", {"L,WQU22,U", "L,N1,U"});
  add("cv", {"L,WU31,U", "L,N1,U"});
  add("cv", {"L,WU20000002,U", "L,WU32,U", "S10,N1"});
  add("cv", {"L,WPF50,U", "L,T,U", "L,SF,NA,U"});
  // ---- thread / sleep
  add("thread", {"E,J1,E", "E,S20,E"});
  add("thread", {"J1,E", "J2,E", "S10,E"});
  add("thread", {"S10,E", "S10,E", "S5,S5,E"});
  add("thread", {"S0,E", "E"});
  add("thread", {"SU20,E", "SU21,E", "SU22,E"});
  add("thread", {"SU10000002,E", "S10,E"});
  // ---- thread-local pointers: VS<var><val> (val 9 = nullptr), VG<var>, VC<dst><src>; variables: 0 p, 1 q, 2 long*, 3 n,
  //      4 i = &slot[7], 5 j = &slot[6]
  add("tls", {"VG0,VS1,VG0,E,VG0", "VG0,VS2,VG0,E,VG0"});
  add("tls", {"VS1,VC10,VG1,E,VG1", "VG1,VS2,E,VG1"});            // D14 regression (33c5ab3)
  add("tls", {"VS1,VG0", "VS2,VC10,VG1,VG0", "VG0,VG1"});
  add("tls", {"VG2,VS1,VG2", "VG2,VG0"});                          // D13 regression (33c5ab3)
  add("tls", {"VS13,VG1,VS1,VC10,VG1", "VG1,VS12,VG1"});          // D14 regression: own copy over an own earlier store
  add("tls", {"VC10,VG1,VS1,VC10,VC10,VG1", "VG1"});              // copies of equal values
  add("tls", {"VG4,VS49,VG4,E,VG4", "VG4,VS42,VG4,VS49,VG4"});    // nullptr stored to a variable with a non-null initialiser
  add("tls", {"VG4,VC43,VG4,VG5,VC54,VG5", "VG5,VS59,VG5,VG4"});  // … by copy from a null thread-local, and from a nulled one
  add("tls", {"VS41,VC54,VG5,VS49,VC54,VG5", "VG4,VG5,VS53,VG5"});
  add("tls", {"VS29,VG2,VS21,VG2", "VG2"});
  add("tls", {"VS9,VG0,VS1,VS9,VG0,VC30,VG3", "VG0,VG3"});
  // ---- random balanced programs
  vx::SplitMix rng{seed * 0x9e3779b97f4a7c15ULL + 18};
  const char* prims[] = {"mutex", "timed", "rec", "rect", "shared", "sharedt", "cv", "tls"};
  for (int r = 0; r < random_count; ++r) {
    Scenario sc;
    sc.prim = prims[rng.below(8)];
    int nf = 2 + static_cast<int>(rng.below(2));
    if (sc.prim == "tls") {
      const int vars[] = {0, 1, 3, 4, 5};
      for (int f = 0; f < nf; ++f) {
        std::vector<Op> ops;
        int len = 4 + static_cast<int>(rng.below(4));
        for (int o = 0; o < len; ++o) {
          int v = vars[rng.below(5)];
          std::uint64_t what = rng.below(5);
          if (what < 2) {
            ops.push_back({"VG", v});
          } else if (what < 4) {
            ops.push_back({"VS", v * 10 + (rng.below(3) == 0 ? 9 : static_cast<long>(rng.below(6)))});
          } else {
            ops.push_back({"VC", v * 10 + vars[rng.below(5)]});
          }
        }
        ops.push_back({"VG", 4});
        ops.push_back({"VG", 5});
        sc.progs.push_back(ops);
      }
      out.push_back(sc);
      continue;
    }
    bool timed = sc.prim == "timed" || sc.prim == "rect" || sc.prim == "sharedt";
    bool shared = sc.prim == "shared" || sc.prim == "sharedt";
    bool rec = sc.prim == "rec" || sc.prim == "rect";
    bool cv = sc.prim == "cv";
    for (int f = 0; f < nf; ++f) {
      std::vector<Op> ops;
      if (cv && f == nf - 1) {
        // the last fiber sets the flag and broadcasts under the lock, so that every predicate wait terminates
        sc.progs.push_back({{"L", 0}, {"SF", 0}, {"NA", 0}, {"U", 0}});
        continue;
      }
      int sections = 1 + static_cast<int>(rng.below(nf == 2 ? 2 : 1));
      for (int s = 0; s < sections; ++s) {
        long d = static_cast<long>(10 * rng.below(6));
        bool sh = shared && rng.below(2) == 0;
        std::uint64_t how = cv ? 0 : rng.below(timed ? 3 : 2);
        std::string acq = how == 0 ? "L" : (how == 1 ? "T" : "F");
        if (sh) acq += "S";
        ops.push_back({acq, acq[0] == 'F' ? d : 0});
        if (rec && rng.below(3) == 0) {
          ops.push_back({"T", 0});
          ops.push_back({"U", 0});
        }
        if (cv) {
          std::uint64_t what = rng.below(4);
          if (what == 0) {
            ops.push_back({"N1", 0});
          } else if (what == 1) {
            ops.push_back({"WPF", static_cast<long>(10 * (1 + rng.below(4)))});
          } else if (what == 2) {
            ops.push_back({"WF", static_cast<long>(10 * rng.below(4))});
          } else {
            ops.push_back({"WP", 0});
          }
        } else if (rng.below(4) == 0) {
          ops.push_back({"S", static_cast<long>(10 * rng.below(4))});
        }
        ops.push_back({sh ? "US" : "U", 0});
      }
      sc.progs.push_back(ops);
    }
    out.push_back(sc);
  }
  return out;
}

}  // namespace

int main(int argc, char** argv) {
  auto opt = vx::ParseOptions(argc, argv);
  int random_count = 12;
  bool stop_on_deadlock = true;
  for (int i = 1; i < argc; ++i) {
    std::string a = argv[i];
    if (a == "--random-scenarios" && i + 1 < argc) random_count = std::atoi(argv[++i]);
    if (a == "--no-early-stop") stop_on_deadlock = false;
  }
  vx::Explorer ex(opt);
  InstallLocalHooks(&ex.ctx);
  yaclib::SetFaultSleepTime(kJitter);
  auto& ctx = ex.ctx;
  std::map<std::string, std::uint64_t> kinds;  // violation kind -> count
  std::set<std::string> seen_headers;
  for (auto& sc : Scenarios(opt.seed, random_count)) {
    const std::string header = sc.Header();
    if (!opt.only.empty() && opt.only != header) continue;
    if (!seen_headers.insert(header).second) continue;
    ++ex.stats.scenarios;
    ex.current_header = header;
    ctx.stack.clear();
    if (opt.has_replay) {
      ctx.random_mode = false;
      ctx.preempt_bound = 1 << 30;
      ctx.weak_bound = 1 << 30;
      ctx.LoadChoices(opt.replay_choices);
    }
    std::uint64_t n = 0;
    std::uint64_t limit = ctx.random_mode ? opt.random_runs : opt.max_exec;
    bool exhausted = false;
    std::set<std::string> kinds_here;
    while (true) {
      bool done = vx::RunOnce(ctx, [&] { RunScenario(sc); });  // a crash inside is reported by vx's crash handler
      ++n;
      ++ex.stats.executions;
      ex.stats.sum_preempts += ctx.preempts;
      if (ctx.pos > ex.stats.max_choices) ex.stats.max_choices = ctx.pos;
      if (ctx.nondeterminism) {
        ++ex.stats.nondeterministic;
        ctx.nondeterminism = false;
      }
      if (!done) {
        ++ex.stats.deadlocks;
        ctx.trace.push_back("- E deadlock");
      }
      auto [kind, bad] = Verdict(sc, done);
      auto h = vx::HashLines(ctx.trace) ^ std::hash<std::string>{}(header);
      if (ex.seen.insert(h).second) {
        ++ex.stats.distinct;
        ex.stats.trace_lines += ctx.trace.size();
        if (ex.out) {
          std::fprintf(ex.out, "run %s\n", header.c_str());
          for (auto& l : ctx.trace) std::fprintf(ex.out, "%s\n", l.c_str());
          std::fprintf(ex.out, "end\n");
        }
        if (ex.samples.size() < 3 && ctx.trace.size() > 8 && n > 3) {
          std::string s = "run " + header;
          for (auto& l : ctx.trace) s += " | " + l;
          ex.samples.push_back(s);
        }
      }
      bool stop = false;
      if (!kind.empty()) {
        ++ex.stats.violations;
        ++kinds[kind];
        if (kinds_here.insert(kind).second && ex.violations.size() < 200) {
          std::string v = "violation: " + bad + "\nscenario: " + header + "\nchoices: " + ctx.ChoiceString() + "\ntrace:";
          for (auto& l : ctx.trace) v += "\n  " + l;
          ex.violations.push_back(v);
        }
        if (!done && stop_on_deadlock) stop = true;  // blocked fibers are leaked: one deadlocking schedule per scenario
      }
      if (opt.has_replay) {
        std::printf("run %s\n", header.c_str());
        for (auto& l : ctx.trace) std::printf("%s\n", l.c_str());
        std::printf("end\n");
        break;
      }
      if (stop) break;
      if (!ctx.Advance()) {
        exhausted = true;
        break;
      }
      if (n >= limit) break;
    }
    if (exhausted && !ctx.random_mode) ++ex.stats.exhausted_scenarios;
    else if (!ctx.random_mode) ++ex.stats.truncated_scenarios;
  }
  ex.Report();
  std::printf("KINDS");
  for (auto& [k, c] : kinds) std::printf(" %s=%llu", k.c_str(), (unsigned long long)c);
  std::printf("\n");
  return ex.stats.violations == 0 ? 0 : 1;
}
