// C16 correspondence harness: threads (fibers) run small programs of WaitGroup operations — Add / Done, Attach / Consume of
// contract futures, Promise::Set, Future::Ready, blocking Wait, WaitFor, co_await (inline / sticky / on-executor) and plain
// TryAdd — on one WaitGroup<> (kind=wg) or on the library's own composition AtomicCounter<OneShotEvent, SetDeleter>
// (kind=oneshot: OneShotEvent::Wait / WaitFor / Await* / TryAdd with Set() reached through SetDeleter).
// Every program respects the documented rule "Add only while the count is non-zero" (token discipline, see Model/Event.lean).
// Emits canonical traces for `ymdriver validate event` and checks the property's monitors directly on the implementation.
#include <common/vx.hpp>

#include <yaclib/algo/one_shot_event.hpp>
#include <yaclib/algo/wait_group.hpp>
#include <yaclib/async/contract.hpp>
#include <yaclib/async/future.hpp>
#include <yaclib/async/promise.hpp>
#include <yaclib/coro/await.hpp>
#include <yaclib/coro/future.hpp>
#include <yaclib/exe/executor.hpp>
#include <yaclib/util/helper.hpp>

#include <chrono>
#include <cstdlib>
#include <new>

// Freed heap blocks are kept until the end of the execution so that no traced object's address is reused.
#if !defined(__SANITIZE_ADDRESS__)
namespace {
bool gQuarantine = false;
constexpr std::size_t kQuarantineSize = 1 << 16;
void* gQuarantined[kQuarantineSize];
std::size_t gQuarantinedCount = 0;
void Release(void* p) noexcept {
  if (gQuarantine && gQuarantinedCount < kQuarantineSize) gQuarantined[gQuarantinedCount++] = p;
  else std::free(p);
}
}  // namespace
void* operator new(std::size_t n) {
  void* p = std::malloc(n != 0 ? n : 1);
  if (p == nullptr) throw std::bad_alloc{};
  return p;
}
void operator delete(void* p) noexcept { Release(p); }
void operator delete(void* p, std::size_t) noexcept { Release(p); }
namespace {
struct QuarantineScope {
  QuarantineScope() { gQuarantine = true; }
  ~QuarantineScope() {
    gQuarantine = false;
    while (gQuarantinedCount != 0) std::free(gQuarantined[--gQuarantinedCount]);
  }
};
}  // namespace
#else
namespace {
struct QuarantineScope {};
}  // namespace
#endif

namespace {

using Ns = std::chrono::nanoseconds;

// ---- access to private members (explicit-instantiation trick): only to tell the trace recorder where the atomics live
template <typename Tag, typename Tag::type M>
struct Rob {
  friend typename Tag::type Get(Tag) { return M; }
};
using WgEvent = yaclib::detail::MultiEvent<yaclib::OneShotEvent, yaclib::detail::AtomicCounter, yaclib::detail::CallCallback,
                                           yaclib::detail::DropCallback>;
struct WgEventTag {
  using type = WgEvent yaclib::WaitGroup<>::*;
  friend type Get(WgEventTag);
};
template struct Rob<WgEventTag, &yaclib::WaitGroup<>::_event>;
struct HeadTag {
  using type = yaclib_std::atomic_uintptr_t yaclib::OneShotEvent::*;
  friend type Get(HeadTag);
};
template struct Rob<HeadTag, &yaclib::OneShotEvent::_head>;

struct Peek : yaclib::detail::BaseCore {
  static yaclib_std::atomic_uintptr_t& Word(yaclib::detail::BaseCore& c) { return c.*(&Peek::_callback); }
};

// payload whose constructions / destructions are counted (consumed futures must release it exactly once)
int gLive = 0;
// virtual time of the sync-hook lines of the trace (index into ctx.trace -> ns)
std::vector<std::pair<std::size_t, unsigned long long>> gSyncTimes;
struct Tracked {
  int v;
  explicit Tracked(int x) : v{x} { ++gLive; }
  Tracked(Tracked&& o) noexcept : v{o.v} { ++gLive; }
  Tracked(const Tracked&) = delete;
  Tracked& operator=(Tracked&&) = default;
  ~Tracked() { --gLive; }
};

struct TraceExec final : yaclib::IExecutor {
  Type Tag() const noexcept final { return Type::Custom; }
  bool Alive() const noexcept final { return true; }
  void Submit(yaclib::Job& job) noexcept final {
    vx::Ev("submit");
    job.Call();
  }
};

// the two objects under test behind one interface
using OneShot = yaclib::detail::AtomicCounter<yaclib::OneShotEvent, yaclib::detail::SetDeleter>;
struct Group {
  bool oneshot;
  yaclib::WaitGroup<> wg;
  OneShot ev;
  explicit Group(bool os, std::size_t count) : oneshot{os}, wg{os ? 0 : count}, ev{os ? count : 0} {}
  yaclib::OneShotEvent& Event() { return oneshot ? static_cast<yaclib::OneShotEvent&>(ev) : static_cast<yaclib::OneShotEvent&>(wg.*Get(WgEventTag{})); }
  yaclib_std::atomic_size_t& Count() { return oneshot ? ev.count : (wg.*Get(WgEventTag{})).count; }
  void Add(std::size_t k) { oneshot ? ev.Add(k) : wg.Add(k); }
  void Done(std::size_t k) { oneshot ? ev.Sub(k) : wg.Done(k); }
  void Wait() { oneshot ? ev.Wait() : wg.Wait(); }
  bool WaitFor(Ns d) { return oneshot ? ev.WaitFor(d) : wg.WaitFor(d); }
};

struct Scenario {
  std::string kind;  // wg | oneshot
  std::vector<int> held;
  int nfut;
  std::vector<std::vector<std::string>> prog;
  long long timeout;  // of every wfor
  std::string Header() const {
    std::string h, p;
    for (auto x : held) h += (h.empty() ? "" : ",") + std::to_string(x);
    for (std::size_t t = 0; t < prog.size(); ++t) {
      if (t != 0) p += "/";
      if (prog[t].empty()) p += "-";
      for (std::size_t i = 0; i < prog[t].size(); ++i) p += (i ? ";" : "") + prog[t][i];
    }
    return "event nthr=" + std::to_string(prog.size()) + " held=" + h + " nfut=" + std::to_string(nfut) + " prog=" + p +
           " kind=" + kind + " timeout=" + std::to_string(timeout);
  }
};

std::vector<int> ParseList(const std::string& s) {
  std::vector<int> out;
  std::size_t i = 0;
  while (i < s.size()) {
    std::size_t j = s.find('+', i);
    if (j == std::string::npos) j = s.size();
    out.push_back(std::atoi(s.substr(i, j - i).c_str()));
    i = j + 1;
  }
  return out;
}

struct RawJob final : yaclib::Job {
  int owner, slot;
  void Call() noexcept final { vx::Ev("rel " + std::to_string(owner) + " " + std::to_string(slot)); }
  void IncRef() noexcept final {}
  void DecRef() noexcept final {}
};

yaclib::Future<> Co(Group& g, std::string kind, int owner, int slot, yaclib::IExecutor& e) {
  if (kind == "inline") {
    co_await g.Event().AwaitInline();
  } else if (kind == "sticky") {
    co_await g.Event().AwaitSticky();
  } else {
    co_await g.Event().AwaitOn(e);
  }
  vx::Ev("rel " + std::to_string(owner) + " " + std::to_string(slot));
  co_return {};
}

std::ptrdiff_t gRcOffset = 0;  // from the Job subobject of a TimedWaiter to its reference counter
int gRcNames = 0;

void ComputeRcOffset() {
  auto p = yaclib::MakeShared<yaclib::OneShotEvent::TimedWaiter>(1);
  yaclib::Job* job = p.Get();
  gRcOffset = reinterpret_cast<char*>(&p->count) - reinterpret_cast<char*>(job);
}

std::unordered_set<unsigned long long>* gInWaitFor = nullptr;  // fiber ids currently inside WaitFor

void RunScenario(const Scenario& sc) {
  QuarantineScope quarantine;
  gSyncTimes.clear();
  gLive = 0;
  gRcNames = 0;
  std::unordered_set<unsigned long long> in_wait_for;
  gInWaitFor = &in_wait_for;
  auto& ctx = *vx::gCtx;
  ctx.NameValWord(0, "empty");
  std::size_t total = 0;
  for (auto h : sc.held) total += static_cast<std::size_t>(h);
  Group g{sc.kind == "oneshot", total};
  ctx.NameObj(&g.Count(), "cnt", true);
  ctx.NameObj(&(g.Event().*Get(HeadTag{})), "head");
  // words hold result = ~0, the head holds alldone = ~0: one name table, so use a neutral name and translate per object
  ctx.NameValWord(~0ULL, "MAX");
  TraceExec exec;
  std::vector<yaclib::Future<Tracked>> futs(sc.nfut);
  std::vector<yaclib::Promise<Tracked>> proms(sc.nfut);
  for (int f = 0; f < sc.nfut; ++f) {
    auto [fu, pr] = yaclib::MakeContract<Tracked>();
    ctx.NameObj(&Peek::Word(*fu.GetCore()), "w" + std::to_string(f));
    futs[f] = std::move(fu);
    proms[f] = std::move(pr);
  }
  std::vector<std::unique_ptr<RawJob>> raw_jobs;
  std::vector<vx::Thread> threads;
  for (std::size_t t = 0; t < sc.prog.size(); ++t) {
    threads.emplace_back("t" + std::to_string(t), [&, t]() mutable {
      auto& prog = sc.prog[t];
      for (std::size_t i = 0; i < prog.size(); ++i) {
        const std::string& op = prog[i];
        int slot = static_cast<int>(prog.size() - i);
        auto arg = op.find(':') == std::string::npos ? std::string() : op.substr(op.find(':') + 1);
        if (op.rfind("add:", 0) == 0) {
          g.Add(std::atoi(arg.c_str()));
        } else if (op.rfind("done:", 0) == 0) {
          g.Done(std::atoi(arg.c_str()));
        } else if (op.rfind("att:", 0) == 0) {
          auto fs = ParseList(arg);
          if (fs.size() == 1) g.wg.Attach(futs[fs[0]]);
          else if (fs.size() == 2 && fs[1] == fs[0] + 1) g.wg.Attach(futs.begin() + fs[0], futs.begin() + fs[0] + 2);
          else if (fs.size() == 2) g.wg.Attach(futs[fs[0]], futs[fs[1]]);
          else std::abort();
        } else if (op.rfind("con:", 0) == 0) {
          auto fs = ParseList(arg);
          if (fs.size() == 1) g.wg.Consume(std::move(futs[fs[0]]));
          else if (fs.size() == 2 && fs[1] == fs[0] + 1) g.wg.Consume(futs.begin() + fs[0], std::size_t{2});
          else if (fs.size() == 2) g.wg.Consume(std::move(futs[fs[0]]), std::move(futs[fs[1]]));
          else std::abort();
        } else if (op.rfind("ful:", 0) == 0) {
          int f = std::atoi(arg.c_str());
          std::move(proms[f]).Set(Tracked{f + 1});
        } else if (op.rfind("rdy:", 0) == 0) {
          int f = std::atoi(arg.c_str());
          bool b = futs[f].Ready();
          vx::Ev("rdy " + std::to_string(f) + " " + (b ? "1" : "0"));
        } else if (op == "wait") {
          g.Wait();
          vx::Ev("ret 1");
        } else if (op == "wfor") {
          in_wait_for.insert(ctx.CurId());
          bool b = g.WaitFor(Ns{sc.timeout});
          in_wait_for.erase(ctx.CurId());
          vx::Ev(std::string("ret ") + (b ? "1" : "0"));
        } else if (op == "aw:raw") {
          raw_jobs.push_back(std::make_unique<RawJob>());
          auto* job = raw_jobs.back().get();
          job->owner = static_cast<int>(t);
          job->slot = slot;
          if (!g.Event().TryAdd(*job)) job->Call();
        } else if (op.rfind("aw:", 0) == 0) {
          Co(g, arg, static_cast<int>(t), slot, exec).Detach();
        } else {
          std::abort();
        }
      }
    });
  }
  for (auto& th : threads) th.join();
  futs.clear();
  proms.clear();
  gInWaitFor = nullptr;
}


unsigned long long TimeOfLine(std::size_t idx) {
  for (auto& p : gSyncTimes) {
    if (p.first == idx) return p.second;
  }
  return 0;
}

// No lost wake-up, checked on the implementation in virtual time: `Set()` notifies the event's condition variable (queue q) under
// the event's mutex, exactly once.  A timed waiter that parks on q AFTER that notification went to sleep although the flag was
// already set — nothing will wake it but its own timeout — and a timeout wake-up on q after the notification means the waiter
// sat out its deadline although it had been released before (model: `sleeping_waiter_is_woken`, `quiescent_complete`).
// `reset_at`: trace lines at which event addresses may be reused (a new wait call of the same waiter).
std::string LostWakeUp(const std::vector<std::string>& trace, const char* model_ref,
                       bool (*reset_at)(const std::vector<std::string>&)) {
  std::map<std::string, std::pair<std::string, std::size_t>> notified;  // queue -> (notifier, line)
  for (std::size_t k = 0; k < trace.size(); ++k) {
    std::vector<std::string> t;
    {
      std::string cur;
      for (char ch : trace[k]) {
        if (ch == ' ') {
          if (!cur.empty()) t.push_back(cur);
          cur.clear();
        } else {
          cur += ch;
        }
      }
      if (!cur.empty()) t.push_back(cur);
    }
    if (t.size() < 4) continue;
    if (reset_at != nullptr && reset_at(t)) notified.clear();
    if (t[1] != "M" || t[2][0] != 'q') continue;
    if (t[3] == "notify_one" || t[3] == "notify_all") {
      if (!notified.count(t[2])) notified[t[2]] = {t[0], k};
    } else if (t[3] == "park_timed") {
      auto it = notified.find(t[2]);
      if (it != notified.end() && it->second.first != t[0]) {
        return "timed waiter " + t[0] + " slept although the event was already set (released only by its timeout): Set by " +
               it->second.first + " at virtual time " + std::to_string(TimeOfLine(it->second.second)) + " ns, waiter parked at " +
               std::to_string(TimeOfLine(k)) + " ns [lost wake-up; model: " + model_ref + "]";
      }
    } else if (t[3] == "wake" && t.size() > 4 && t[4] == "1") {
      auto it = notified.find(t[2]);
      if (it != notified.end() && it->second.first != t[0]) {
        return "timed waiter " + t[0] + " was released only at its deadline T=" + std::to_string(TimeOfLine(k)) +
               " ns although the event was set at t0=" + std::to_string(TimeOfLine(it->second.second)) + " ns < T [model: " +
               model_ref + "]";
      }
    }
  }
  return "";
}

std::vector<std::string> Split(const std::string& s) {
  std::vector<std::string> out;
  std::string cur;
  for (char ch : s) {
    if (ch == ' ') {
      if (!cur.empty()) out.push_back(cur);
      cur.clear();
    } else {
      cur += ch;
    }
  }
  if (!cur.empty()) out.push_back(cur);
  return out;
}

// The property, checked on the implementation's own trace:
//  * nobody is released (Wait returned, WaitFor returned true, coroutine / job resumed) before a decrement took the count to
//    zero, and the count is zero at every release;
//  * every wait operation ends exactly once (Wait / WaitFor return once, a coroutine resumes once; WaitFor may return false);
//  * the list head is exchanged at most once; the count never underflows;
//  * a timed waiter's reference count goes 2 → 1 → 0 (freed once), or it is never shared (TryAdd failed);
//  * consumed payloads are destroyed exactly once (live counter back to zero at the end);
//  * an attached future reports Ready() == true only after its Promise was fulfilled  (fires: D3).
std::string Monitor(const Scenario& sc, bool done) {
  auto& ctx = *vx::gCtx;
  for (auto it = ctx.asserts.begin(); it != ctx.asserts.end();) {
    if (it->find("sleep_list for time that is not passed yet") != std::string::npos) it = ctx.asserts.erase(it);  // D8 (C18)
    else ++it;
  }
  if (!done) return "";
  {
    // the heap waiters of timed waits are quarantined: their queues keep their names for the whole execution
    auto lost = LostWakeUp(ctx.trace, "Props.C16.quiescent_complete / released_only_at_zero (every waiter registered before zero is released by it)",
                           nullptr);
    if (!lost.empty()) return lost;
  }
  long long count = 0;
  for (auto h : sc.held) count += h;
  bool zero_seen = false;
  int head_xchg = 0;
  std::vector<bool> completed(sc.nfut, false);
  std::map<std::string, std::vector<long long>> rc;
  std::map<std::string, int> ended;  // "<thread> <slot>" of coroutine waits; "<thread>#k" for blocking / timed returns
  std::string d3;
  for (auto& l : ctx.trace) {
    auto t = Split(l);
    if (t.size() < 3) continue;
    if (t[1] == "A" && t[2] == "cnt") {
      long long k = std::atoll(t[5].c_str()), old = std::atoll(t[7].c_str());
      if (old != count) return "the counter value the harness tracks disagrees with the trace";
      if (t[3] == "fadd") {
        if (old == 0 && zero_seen) return "Add after the count had reached zero";
        count = old + k;
      } else {
        if (old < k) return "count underflow";
        count = old - k;
        if (count == 0) zero_seen = true;
      }
    } else if (t[1] == "A" && t[2] == "head" && t[3] == "xchg") {
      if (++head_xchg > 1) return "the event was set twice";
      if (!zero_seen) return "Set before the count reached zero";
    } else if (t[1] == "A" && t[2].rfind("rc", 0) == 0) {
      rc[t[2]].push_back(std::atoll(t[7].c_str()));
    } else if (t[1] == "A" && t[2][0] == 'w' && t[3] == "xchg") {
      completed[std::atoi(t[2].c_str() + 1)] = true;
    } else if (t[1] == "E") {
      bool release = (t[2] == "ret" && t[3] == "1") || t[2] == "rel";
      if (release && (!zero_seen || count != 0)) return "a waiter was released while the count had not reached zero";
      if (t[2] == "rel") ++ended[t[3] + " " + t[4]];
      if (t[2] == "rdy" && t[4] == "1" && !completed[std::atoi(t[3].c_str())] && d3.empty())
        d3 = "attached future " + t[3] + " reports Ready() == true before its Promise is fulfilled";
    }
  }
  for (auto& [name, olds] : rc) {
    if (olds != std::vector<long long>{2, 1}) return "timed waiter " + name + " reference count did not go 2, 1";
  }
  for (std::size_t t = 0; t < sc.prog.size(); ++t) {
    for (std::size_t i = 0; i < sc.prog[t].size(); ++i) {
      if (sc.prog[t][i].rfind("aw:", 0) == 0) {
        int n = ended[std::to_string(t) + " " + std::to_string(sc.prog[t].size() - i)];
        if (n != 1) return "coroutine waiter of t" + std::to_string(t) + " resumed " + std::to_string(n) + " times";
      }
    }
  }
  if (gLive != 0) return "payloads alive at the end: " + std::to_string(gLive);
  return d3;
}

std::vector<Scenario> AllScenarios(bool thorough) {
  std::vector<Scenario> out;
  using P = std::vector<std::vector<std::string>>;
  for (std::string kind : {"wg", "oneshot"}) {
    out.push_back({kind, {1, 0}, 0, P{{"done:1"}, {"wait"}}, 0});
    out.push_back({kind, {1, 0}, 0, P{{"add:1", "done:2"}, {"wait", "wait"}}, 0});
    for (long long ns : {0LL, 15LL, 1000000LL}) {
      out.push_back({kind, {1, 0}, 0, P{{"done:1"}, {"wfor"}}, ns});
    }
    out.push_back({kind, {1, 0}, 0, P{{"done:1"}, {"wfor", "wait"}}, 15});
    out.push_back({kind, {1, 0, 0}, 0, P{{"done:1"}, {"wait"}, {"wfor"}}, 25});
    out.push_back({kind, {1, 0, 0}, 0, P{{"done:1"}, {"aw:inline"}, {"aw:on"}}, 0});
    out.push_back({kind, {1, 0, 0}, 0, P{{"done:1"}, {"aw:sticky"}, {"aw:raw"}}, 0});
    out.push_back({kind, {1, 0, 0}, 0, P{{"done:1"}, {"aw:raw", "wait"}, {"aw:inline", "wfor"}}, 15});
    out.push_back({kind, {1, 1, 0}, 0, P{{"done:1"}, {"add:1", "done:1", "done:1"}, {"wait"}}, 0});
  }
  out.push_back({"wg", {1, 0, 0}, 1, P{{"att:0", "done:1"}, {"ful:0"}, {"wait"}}, 0});
  out.push_back({"wg", {1, 0, 0}, 1, P{{"con:0", "done:1"}, {"ful:0"}, {"wait"}}, 0});
  out.push_back({"wg", {1, 0}, 1, P{{"att:0", "rdy:0", "done:1", "wait", "rdy:0"}, {"ful:0"}}, 0});
  out.push_back({"wg", {1, 0}, 1, P{{"rdy:0", "att:0", "done:1", "rdy:0"}, {"ful:0"}}, 0});
  out.push_back({"wg", {1, 0, 0}, 2, P{{"att:0+1", "done:1", "wfor"}, {"ful:0"}, {"ful:1"}}, 25});
  out.push_back({"wg", {1, 0, 0}, 2, P{{"con:0+1", "done:1", "aw:inline"}, {"ful:0"}, {"ful:1"}}, 0});
  out.push_back({"wg", {1, 0, 0}, 2, P{{"con:1", "att:0", "done:1"}, {"ful:0", "ful:1"}, {"aw:on", "wait"}}, 0});
  if (thorough) {
    out.push_back({"wg", {1, 0, 0, 0}, 2, P{{"att:0", "con:1", "done:1"}, {"ful:0"}, {"ful:1"}, {"wait"}}, 0});
    out.push_back({"wg", {1, 0, 0, 0}, 2, P{{"att:0+1", "done:1"}, {"ful:1", "ful:0"}, {"wfor", "wait"}, {"aw:sticky"}}, 15});
    out.push_back({"wg", {2, 0, 0, 0}, 0, P{{"done:1", "done:1"}, {"wait"}, {"wfor"}, {"aw:inline"}}, 35});
    out.push_back({"oneshot", {1, 0, 0, 0}, 0, P{{"done:1"}, {"aw:raw"}, {"wfor"}, {"wait"}}, 15});
  }
  return out;
}

}  // namespace

int main(int argc, char** argv) {
  auto opt = vx::ParseOptions(argc, argv);
  bool thorough = false;
  for (int i = 1; i < argc; ++i) thorough |= std::string(argv[i]) == "--thorough";
  ComputeRcOffset();
  vx::Explorer ex(opt);
  // name the reference counter of a TimedWaiter when it is pushed: the pushing fiber is inside WaitFor
  yaclib::verif::gHooks.on_atomic = [](void* c, const void* obj, int op, int so, int fo, unsigned long long a,
                                       unsigned long long e, unsigned long long r, int ok) {
    auto* ctx = static_cast<vx::Ctx*>(c);
    if (op == yaclib::verif::kCasWeak && ok != 0 && gInWaitFor != nullptr && gInWaitFor->count(ctx->CurId()) != 0) {
      auto it = ctx->objs.find(obj);
      if (it != ctx->objs.end() && it->second == "head") {
        ctx->NameObj(reinterpret_cast<char*>(static_cast<std::uintptr_t>(a)) + gRcOffset, "rc" + std::to_string(gRcNames++), true);
      }
    }
    ctx->OnAtomic(obj, op, so, fo, a, e, r, ok);
  };
  yaclib::verif::gHooks.on_sync = [](void* c, const void* obj, int op, int res) {
    auto* ctx = static_cast<vx::Ctx*>(c);
    std::size_t before = ctx->trace.size();
    ctx->OnSync(obj, op, res);
    if (ctx->trace.size() > before) gSyncTimes.emplace_back(before, yaclib::fault::Scheduler::GetScheduler()->GetTimeNs());
  };
  for (auto& sc : AllScenarios(thorough)) {
    ex.Run(sc.Header(), [&] { RunScenario(sc); }, [&](bool done) { return Monitor(sc, done); });
  }
  ex.Report();
  return ex.stats.violations == 0 ? 0 : 1;
}
