// API instantiation sweep, area `lazy`: lazy/{task,make,schedule}.hpp.  C++17-clean.  See api_probe.hpp for the conventions.
#include <yaclib/lazy/make.hpp>
#include <yaclib/lazy/schedule.hpp>
#include <yaclib/lazy/task.hpp>
// the three headers above are the whole include list a user of Task needs
#include <yaclib/exe/manual.hpp>

#include "api_probe.hpp"
#include "api_probe_cb.hpp"

#ifndef API_PROBE_SMOKE_ONLY
namespace probe {
namespace {

using yaclib::Future;
using yaclib::FutureOn;
using yaclib::Promise;
using yaclib::Result;
using yaclib::StopError;
using yaclib::StopTag;
using yaclib::Task;

// ---- lazy/task.hpp: the non-template members ---------------------------------------------------------------------------
template <typename V, typename E>
void TaskMembers() {
  using T = Task<V, E>;
  T def;
  T t = Build<T>::Do();
  T moved{std::move(t)};
  t = std::move(moved);
  const T& ct = t;
  Sink(ct.Valid(), ct.Ready(), def.Valid(), t.GetCore());
  T same = Build<T>::Do().On(nullptr);  // On(nullptr) &&
  Future<V, E> f = Build<T>::Do().ToFuture();
  FutureOn<V, E> fo = Build<T>::Do().ToFuture(Exec());
  Result<V, E> r = Build<T>::Do().Get();
  Build<T>::Do().Cancel();
  Build<T>::Do().Detach();
  Build<T>::Do().Detach(Exec());
  Sink(same, f, fo, r);
  // Touch needs a Ready task: only a task that was awaited (co_await Await(task)) is, the overloads still have to compile
  if (def.Valid()) {
    const Result<V, E>& touched = ct.Touch();  // Touch() const&
    Result<V, E> taken = std::move(t).Touch();   // Touch() &&
    Sink(touched, taken);
  }
  T from_core{yaclib::detail::UniqueCorePtr<V, E>{}};
  Sink(from_core.Valid());
}
template <typename E>
void TaskMembersAllV() {
  TaskMembers<void, E>();
  TaskMembers<int, E>();
  TaskMembers<std::string, E>();
  TaskMembers<MoveOnly, E>();
  TaskMembers<Pinned, E>();
}
template void TaskMembersAllV<StopError>();
template void TaskMembersAllV<UserError>();

template <typename T, typename = void>
struct CanTouchLvalue : std::false_type {};
template <typename T>
struct CanTouchLvalue<T, std::void_t<decltype(std::declval<T&>().Touch())>> : std::true_type {};
static_assert(!CanTouchLvalue<Task<int>>::value, "API_PROBE_DELETED: Task::Touch() & is deleted");
static_assert(CanTouchLvalue<const Task<int>>::value && !std::is_copy_constructible_v<Task<int>>);

// ---- lazy/make.hpp ---------------------------------------------------------------------------------------------------------
template <typename E>
void MakeTasks() {
  static_assert(std::is_same_v<decltype(yaclib::MakeTask()), Task<void, StopError>>);
  static_assert(std::is_same_v<decltype(yaclib::MakeTask(1)), Task<int, StopError>>);
  static_assert(std::is_same_v<decltype(yaclib::MakeTask(yaclib::Unit{})), Task<void, StopError>>);
  static_assert(std::is_same_v<decltype(yaclib::MakeTask<void, E>()), Task<void, E>>);
  static_assert(std::is_same_v<decltype(yaclib::MakeTask<yaclib::Unit, E>(std::string{})), Task<std::string, E>>);
  Sink(yaclib::MakeTask(), yaclib::MakeTask(1), yaclib::MakeTask(yaclib::Unit{}), yaclib::MakeTask(std::string{"s"}), yaclib::MakeTask(MoveOnly{}),
       yaclib::MakeTask(Pinned{1}));
  int lvalue = 1;
  const std::string clvalue = "s";
  Sink(yaclib::MakeTask(lvalue), yaclib::MakeTask(clvalue));
  Sink(yaclib::MakeTask<void, E>(), yaclib::MakeTask<yaclib::Unit, E>(), yaclib::MakeTask<yaclib::Unit, E>(1),
       yaclib::MakeTask<yaclib::Unit, E>(Pinned{1}));
  Sink(yaclib::MakeTask<int, E>(1), yaclib::MakeTask<double, E>(1), yaclib::MakeTask<std::string, E>("s"),
       yaclib::MakeTask<std::string, E>(std::size_t{3}, 'x'), yaclib::MakeTask<MoveOnly, E>(MoveOnly{}), yaclib::MakeTask<MoveOnly, E>(1),
       yaclib::MakeTask<Pinned, E>(1), yaclib::MakeTask<Pinned, E>(Pinned{1}));
  Sink(yaclib::MakeTask<int, E>(StopTag{}), yaclib::MakeTask<int, E>(E{StopTag{}}), yaclib::MakeTask<int, E>(std::make_exception_ptr(1)),
       yaclib::MakeTask<void, E>(StopTag{}), yaclib::MakeTask<void, E>(E{StopTag{}}), yaclib::MakeTask<void, E>(std::make_exception_ptr(1)),
       yaclib::MakeTask<Pinned, E>(StopTag{}), yaclib::MakeTask<void, E>(yaclib::Unit{}), yaclib::MakeTask<int, E>(Result<int, E>{1}),
       yaclib::MakeTask<void, E>(Result<void, E>{StopTag{}}));
}
template void MakeTasks<StopError>();
template void MakeTasks<UserError>();

// ---- lazy/schedule.hpp ---------------------------------------------------------------------------------------------------------
template <typename E, typename R>
void ScheduleWith() {
  Sink(yaclib::Schedule<E>(Fn<R>{}), yaclib::Schedule<E>(Exec(), Fn<R>{}));
  Sink(yaclib::Schedule<E>(Fn<R, Result<void, E>>{}), yaclib::Schedule<E>(Exec(), Fn<R, Result<void, E>&&>{}));
  Sink(yaclib::Schedule<E>(Fn<R, yaclib::Unit>{}), yaclib::Schedule<E>(Exec(), MutFn<R>{}));
}
template <typename E, typename U>
void ScheduleRets() {
  ScheduleWith<E, U>();
  ScheduleWith<E, Result<U, E>>();
  ScheduleWith<E, Future<U, E>>();
  ScheduleWith<E, FutureOn<U, E>>();
  ScheduleWith<E, Task<U, E>>();
  if constexpr (kCopyable<U, E>) {
    ScheduleWith<E, yaclib::SharedFuture<U, E>>();
    ScheduleWith<E, yaclib::SharedFutureOn<U, E>>();
  }
}
template <typename V, typename E>
void LazyContracts() {
  Sink(yaclib::LazyContract<V, E>(Fn<void, Promise<V, E>>{}), yaclib::LazyContract<V, E>(Fn<void, Promise<V, E>&&>{}),
       yaclib::LazyContract<V, E>(Exec(), Fn<void, Promise<V, E>>{}), yaclib::LazyContract<V, E>(Exec(), MutFn<void, Promise<V, E>>{}),
       yaclib::LazyContract<V, E>(FreeFn<void, Promise<V, E>>));
  static_assert(std::is_same_v<decltype(yaclib::LazyContract<V, E>(Fn<void, Promise<V, E>>{})), Task<V, E>>);
  static_assert(std::is_same_v<decltype(yaclib::LazyContract<V, E>(Exec(), Fn<void, Promise<V, E>>{})), Task<V, E>>);
}
template <typename E>
void Schedules() {
  ScheduleRets<E, void>();
  ScheduleRets<E, int>();
  ScheduleRets<E, std::string>();
  ScheduleRets<E, MoveOnly>();
  ScheduleRets<E, Pinned>();
  LazyContracts<void, E>();
  LazyContracts<int, E>();
  LazyContracts<std::string, E>();
  LazyContracts<MoveOnly, E>();
  LazyContracts<Pinned, E>();
  static_assert(std::is_same_v<decltype(yaclib::Schedule<E>(Fn<int>{})), Task<int, E>>);
  static_assert(std::is_same_v<decltype(yaclib::Schedule<E>(Exec(), Fn<Future<Pinned, E>>{})), Task<Pinned, E>>);
}
// a user error type: one copyable and one move-only value type (the error type is only passed through)
template <typename E>
void SchedulesLite() {
  ScheduleRets<E, int>();
  ScheduleRets<E, Pinned>();
  LazyContracts<void, E>();
  LazyContracts<Pinned, E>();
}
template void Schedules<StopError>();
template void SchedulesLite<UserError>();

void ScheduleDefaults() {
  Sink(yaclib::Schedule([] {
  }));
  Sink(yaclib::Schedule(Exec(), [] {
    return 1;
  }));
  Sink(yaclib::LazyContract([](Promise<> p) {
    std::move(p).Set();
  }));
  Sink(yaclib::LazyContract<int>(Exec(), [](Promise<int> p) {
    std::move(p).Set(1);
  }));
  Sink(yaclib::Schedule(FreeFn<void>), yaclib::Schedule(Exec(), &FreeFn<int>));
}

// ---- Task::Then / ThenInline / Then(e, f) ------------------------------------------------------------------------------------------
template <typename V, typename E, typename U>
void ContinuationsFull() {
  ArgsRets<ThenInline, Task<V, E>, V, E, U>();
  RecoverRets<ThenInline, Task<V, E>, V, E>();
  ArgsRets<ThenExec, Task<V, E>, V, E, U>();
  RecoverRets<ThenExec, Task<V, E>, V, E>();
  ArgsRets<ThenOn, Task<V, E>, V, E, U>();
  RecoverRets<ThenOn, Task<V, E>, V, E>();
}
template <typename V, typename E, typename U>
void ContinuationsStar() {
  Star<ThenInline, Task<V, E>, V, E, U>();
  Star<ThenExec, Task<V, E>, V, E, U>();
  Star<ThenOn, Task<V, E>, V, E, U>();
}
template void ContinuationsFull<int, StopError, void>();
template void ContinuationsStar<void, StopError, int>();
template void ContinuationsStar<std::string, StopError, std::string>();
template void ContinuationsStar<MoveOnly, UserError, void>();
template void ContinuationsStar<Pinned, UserError, MoveOnly>();
template void ContinuationsStar<void, UserError, Pinned>();

void ReturnedKinds() {
  Fn<int, int> f;
  static_assert(std::is_same_v<decltype(Build<Task<int>>::Do().ThenInline(f)), Task<int>>);
  static_assert(std::is_same_v<decltype(Build<Task<int>>::Do().Then(f)), Task<int>>);
  static_assert(std::is_same_v<decltype(Build<Task<int>>::Do().Then(Exec(), f)), Task<int>>);
  static_assert(std::is_same_v<decltype(Build<Task<int>>::Do().Then(Fn<Future<std::string>, int>{})), Task<std::string>>);
  Sink(Build<Task<int>>::Do().ThenInline(f), Build<Task<int>>::Do().Then(std::as_const(f)), Build<Task<int>>::Do().Then(Exec(), MutFn<int, int>{}),
       Build<Task<int>>::Do().Then(RvFn<int, int>{}), Build<Task<int>>::Do().ThenInline(FreeFn<int, int>),
       Build<Task<int>>::Do().Then(std::function<int(int)>{f}), Build<Task<int>>::Do().Then([](auto&& x) {
         return std::forward<decltype(x)>(x);
       }));
}

}  // namespace
}  // namespace probe
#endif  // API_PROBE_SMOKE_ONLY

int api_probe_lazy(int argc) {
  (void)argc;
#ifndef API_PROBE_SMOKE_ONLY
  using namespace probe;
  if (argc > 1000) {
    TaskMembersAllV<StopError>();
    MakeTasks<StopError>();
    Schedules<StopError>();
    ScheduleDefaults();
    ContinuationsFull<int, StopError, void>();
    ContinuationsStar<Pinned, UserError, MoveOnly>();
    ReturnedKinds();
  }
#endif
  // smoke
  yaclib::ManualExecutor manual;
  int ran = 0;
  auto task = yaclib::Schedule(manual,
                               [&] {
                                 ++ran;
                                 return 20;
                               })
                .ThenInline([](int x) {
                  return yaclib::MakeTask(x + 1);
                })
                .Then([](yaclib::Result<int>&& r) {
                  return std::move(r).Ok() * 2;
                });
  if (ran != 0 || manual.Drain() != 0) {
    return 1;  // nothing runs before the task is started
  }
  auto f = std::move(task).ToFuture();
  while (manual.Drain() != 0) {
  }
  int got = std::move(f).Get().Ok();
  yaclib::Schedule(manual, [&] {
    ++ran;
  }).Cancel();
  return (got == 42 && ran == 1) ? 0 : 1;
}

#ifndef API_PROBE_NO_MAIN
int main(int argc, char**) {
  return api_probe_lazy(argc);
}
#endif
