// API instantiation sweep, area `wg`: algo/{wait_group,one_shot_event}.hpp.  The blocking part is C++17-clean, the awaitable part
// is compiled when the library has coroutines (YACLIB_CORO != 0).  See api_probe.hpp for the conventions.
#include <yaclib/algo/wait_group.hpp>
// (wait_group.hpp includes one_shot_event.hpp; the line above is the whole include list a user of WaitGroup needs)
#include <yaclib/algo/one_shot_event.hpp>
#include <yaclib/async/contract.hpp>
#include <yaclib/async/make.hpp>
#include <yaclib/exe/manual.hpp>
#include <yaclib/exe/submit.hpp>

#if YACLIB_CORO != 0
#  include <yaclib/coro/future.hpp>
#  include <yaclib/coro/on.hpp>
#  include <yaclib/coro/shared_future.hpp>
#  include <yaclib/coro/task.hpp>
#endif

#include "api_probe.hpp"
#include "api_probe_cb.hpp"

#include <array>
#include <chrono>
#include <vector>

#ifndef API_PROBE_SMOKE_ONLY
namespace probe {
namespace {

using yaclib::Future;
using yaclib::FutureOn;
using yaclib::StopError;
using yaclib::StopTag;

// a user event with the interface WaitGroup<Event> needs from its Event (that of OneShotEvent); WaitGroup<> is the only
// instantiation the library itself provides (`extern template class WaitGroup<OneShotEvent>`), the parameter is public
struct UserEvent : yaclib::OneShotEvent {};

// ---- algo/wait_group.hpp: blocking interface ------------------------------------------------------------------------------
template <typename WG>
void WaitGroupCounting() {
  using namespace std::chrono_literals;
  WG def;        // WaitGroup(count = 0)
  WG wg{2};
  wg.Add();
  wg.Add(2);
  wg.Done();
  wg.Done(3);
  Sink(wg.Count(), wg.Count(std::memory_order_acquire));
  wg.Wait();
  Sink(wg.WaitFor(1ns), wg.WaitFor(std::chrono::duration<double>{0.001}), wg.WaitUntil(std::chrono::steady_clock::now()),
       wg.WaitUntil(std::chrono::system_clock::now() + 1ms));
  wg.Reset();
  wg.Reset(1);
  wg.Done();
  def.Wait();
}

template <typename WG, typename V, typename E>
void WaitGroupFutures() {
  WG wg;
  auto f = [] {
    return Build<Future<V, E>>::Do();
  };
  auto fo = [] {
    return Build<FutureOn<V, E>>::Do();
  };
  // Consume: by rvalue, the future is detached into the group
  wg.Consume(f());
  wg.Consume(f(), fo(), Build<Future<std::string, E>>::Do());  // mixed handle kinds and value types
  wg.template Consume<true>(f());
  wg.Add(2);
  wg.template Consume<false>(f(), fo());
  yaclib::FutureBase<V, E>&& base = f();
  wg.Consume(std::move(base));
  // Attach: by lvalue, the future stays usable
  Future<V, E> a = f();
  FutureOn<V, E> b = fo();
  Future<std::string, E> c = Build<Future<std::string, E>>::Do();
  wg.Attach(a);
  wg.Attach(a, b, c);
  wg.template Attach<true>(b);
  wg.Add(1);
  wg.template Attach<false>(c);
  yaclib::FutureBase<V, E>& lbase = a;
  wg.Attach(lbase);
  // iterator forms
  std::vector<Future<V, E>> vec;
  vec.push_back(f());
  vec.push_back(f());
  wg.Attach(vec.begin(), vec.end());
  wg.Attach(vec.begin(), vec.size());
  wg.Attach(vec.data(), vec.data() + vec.size());
  wg.Attach(vec.data(), vec.size());
  wg.Add(2);
  wg.template Attach<false>(vec.begin(), vec.end());
  wg.Add(2);
  wg.template Attach<false>(vec.begin(), vec.size());
  std::array<FutureOn<V, E>, 2> arr{fo(), fo()};
  wg.Attach(arr.begin(), arr.end());
  wg.Consume(arr.begin(), arr.end());
  wg.Consume(vec.begin(), vec.size());
  vec.clear();
  vec.push_back(f());
  wg.Add(1);
  wg.template Consume<false>(vec.begin(), vec.end());
  vec.clear();
  vec.push_back(f());
  wg.Add(1);
  wg.template Consume<false>(vec.data(), vec.size());
  wg.Wait();
}

template <typename WG>
void WaitGroupAll() {
  WaitGroupCounting<WG>();
  WaitGroupFutures<WG, void, StopError>();
  WaitGroupFutures<WG, int, UserError>();
  WaitGroupFutures<WG, Pinned, StopError>();
  WaitGroupFutures<WG, MoveOnly, UserError>();
}
template void WaitGroupAll<yaclib::WaitGroup<>>();  // = WaitGroup<OneShotEvent>
template void WaitGroupAll<yaclib::WaitGroup<UserEvent>>();

// ---- algo/one_shot_event.hpp: blocking interface ----------------------------------------------------------------------------
struct CountingJob : yaclib::Job {
  void Call() noexcept override {
    ++calls;
  }
  void Drop() noexcept override {
  }
  int calls = 0;
};

void OneShotEventBlocking() {
  using namespace std::chrono_literals;
  yaclib::OneShotEvent event;
  CountingJob job;
  Sink(event.TryAdd(job), event.Ready());
  Sink(event.WaitFor(1ns), event.WaitFor(std::chrono::duration<float>{0.001F}), event.WaitUntil(std::chrono::steady_clock::now()),
       event.WaitUntil(std::chrono::system_clock::now() + 1ms));
  event.Call();
  event.Set();
  event.Wait();
  event.Reset();
  // "Waiter is public for advanced users"
  yaclib::OneShotEvent::Waiter waiter;
  if (event.TryAdd(waiter)) {
    event.Set();
    auto token = waiter.Make();
    waiter.Wait(token);
    waiter.Reset();
  }
  yaclib::OneShotEvent::TimedWaiter* timed = nullptr;
  Sink(timed);
}

#if YACLIB_CORO != 0
// ---- awaitable interface of both ------------------------------------------------------------------------------------------------
template <typename K, typename Awaitable>
K AwaitableForms(yaclib::IExecutor& e) {
  Awaitable a;
  if constexpr (std::is_base_of_v<yaclib::OneShotEvent, Awaitable>) {
    a.Set();
  }
  co_await a;  // operator co_await
  co_await a.AwaitInline();
  co_await a.AwaitSticky();
  co_await a.AwaitOn(e);
  co_return StopTag{};
}
template <typename K>
void AwaitableFormsAll(yaclib::IExecutor& e) {
  Sink(AwaitableForms<K, yaclib::OneShotEvent>(e), AwaitableForms<K, yaclib::WaitGroup<>>(e), AwaitableForms<K, yaclib::WaitGroup<UserEvent>>(e));
}
template void AwaitableFormsAll<Future<>>(yaclib::IExecutor&);
template void AwaitableFormsAll<yaclib::Task<int, UserError>>(yaclib::IExecutor&);
template void AwaitableFormsAll<yaclib::SharedFuture<int>>(yaclib::IExecutor&);
#endif

}  // namespace
}  // namespace probe
#endif  // API_PROBE_SMOKE_ONLY

#if YACLIB_CORO != 0
namespace {
yaclib::Future<int> SmokeAwait(yaclib::IExecutor& e, yaclib::WaitGroup<>& wg, yaclib::OneShotEvent& event) {
  co_await yaclib::On(e);
  co_await wg;
  co_await event.AwaitSticky();
  co_await wg.AwaitOn(e);
  co_return 1;
}
}  // namespace
#endif

int api_probe_wg(int argc) {
  (void)argc;
#ifndef API_PROBE_SMOKE_ONLY
  if (argc > 1000) {
    probe::WaitGroupAll<yaclib::WaitGroup<>>();
    probe::OneShotEventBlocking();
#  if YACLIB_CORO != 0
    probe::AwaitableFormsAll<yaclib::Future<>>(yaclib::MakeInline());
#  endif
  }
#endif
  yaclib::ManualExecutor manual;
  yaclib::WaitGroup<> wg{1};
  yaclib::OneShotEvent event;
  auto [f, p] = yaclib::MakeContract<int>();
  wg.Attach(f);
  int extra = 0;
#if YACLIB_CORO != 0
  auto coro = SmokeAwait(manual, wg, event);
#endif
  while (manual.Drain() != 0) {
  }
  if (wg.Count() != 2 || wg.WaitFor(std::chrono::nanoseconds{1})) {
    return 1;
  }
  std::move(p).Set(41);
  wg.Done();
  event.Set();
  while (manual.Drain() != 0) {
  }
  wg.Wait();
#if YACLIB_CORO != 0
  extra = coro.Ready() ? std::move(coro).Get().Ok() : -100;
#else
  extra = 1;
#endif
  return (std::move(f).Get().Ok() + extra == 42) ? 0 : 1;
}

#ifndef API_PROBE_NO_MAIN
int main(int argc, char**) {
  return api_probe_wg(argc);
}
#endif
