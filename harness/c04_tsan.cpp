// C04 failing-input search on the implementation: real threads under ThreadSanitizer.
// Built against a TSAN build of the library (no fault injection). Each scenario is a small client that respects the
// documented threading contract; a ThreadSanitizer report in a scenario is a data race inside the library.
//   c04_tsan <scenario> <iterations>
#include <yaclib/async/contract.hpp>
#include <yaclib/async/future.hpp>
#include <yaclib/async/make.hpp>
#include <yaclib/async/run.hpp>
#include <yaclib/async/shared_contract.hpp>
#include <yaclib/async/shared_future.hpp>
#include <yaclib/async/wait.hpp>
#include <yaclib/async/when_all.hpp>
#include <yaclib/async/when_any.hpp>
#include <yaclib/exe/strand.hpp>
#include <yaclib/exe/submit.hpp>
#include <yaclib/runtime/fair_thread_pool.hpp>

#include <atomic>
#include <cstdio>
#include <cstdlib>
#include <string>
#include <thread>
#include <vector>

namespace {

using Payload = std::vector<int>;

// --- producer writes plain data before Set; consumers read it after observing completion
void HandOffContinuation(int iters) {
  for (int i = 0; i < iters; ++i) {
    int plain = 0;
    auto [f, p] = yaclib::MakeContract<Payload>();
    long sum = 0;
    std::thread prod([&, p = std::move(p)]() mutable {
      plain = 42;
      std::move(p).Set(Payload{1, 2, 3});
    });
    std::thread cons([&, f = std::move(f)]() mutable {
      std::move(f).DetachInline([&](yaclib::Result<Payload>&& r) {
        sum += plain;
        for (int x : std::as_const(r).Value()) sum += x;
      });
    });
    prod.join();
    cons.join();
    if (sum != 48) std::abort();
  }
}

void HandOffGet(int iters) {
  for (int i = 0; i < iters; ++i) {
    int plain = 0;
    auto [f, p] = yaclib::MakeContract<Payload>();
    std::thread prod([&, p = std::move(p)]() mutable {
      plain = 42;
      std::move(p).Set(Payload{1, 2, 3});
    });
    long sum = 0;
    std::thread cons([&, f = std::move(f)]() mutable {
      while (!f.Ready()) {
      }
      sum += plain;
      auto r = std::move(f).Get();
      for (int x : std::as_const(r).Value()) sum += x;
    });
    prod.join();
    cons.join();
    if (sum != 48) std::abort();
  }
}

// --- SharedFuture: one holder reads through its copy and drops it, another moves the value out as "last" holder
void SharedMoveOut(int iters) {
  for (int i = 0; i < iters; ++i) {
    auto [sf, sp] = yaclib::MakeSharedContract<Payload>();
    std::move(sp).Set(Payload(64, 7));
    auto copy = sf;
    long sum = 0;
    std::thread reader([&, c = std::move(copy)]() mutable {
      const auto& r = c.Get();  // read through the copy
      for (int x : r.Value()) sum += x;
      // c is destroyed here: DecRef (release)
    });
    std::thread mover([&, s = std::move(sf)]() mutable {
      auto r = std::move(s).Get();  // moves the value out iff GetRef() == 1
      if (std::as_const(r).Value().size() != 64) std::abort();
    });
    reader.join();
    mover.join();
    if (sum != 64 * 7) std::abort();
  }
}

void SharedSubscribers(int iters) {
  for (int i = 0; i < iters; ++i) {
    auto [sf, sp] = yaclib::MakeSharedContract<Payload>();
    int plain = 0;
    std::atomic<long> sum{0};
    std::thread prod([&, p = std::move(sp)]() mutable {
      plain = 5;
      std::move(p).Set(Payload{1, 2, 3});
    });
    std::vector<std::thread> obs;
    for (int k = 0; k < 3; ++k) {
      obs.emplace_back([&, c = sf]() mutable {
        c.SubscribeInline([&](const yaclib::Result<Payload>& r) {
          long s = plain;
          for (int x : r.Value()) s += x;
          sum += s;
        });
      });
    }
    prod.join();
    for (auto& t : obs) t.join();
    if (sum != 3 * 11) std::abort();
  }
}

// --- consecutive strand jobs touch a plain counter
void StrandCounter(int iters) {
  auto tp = yaclib::MakeFairThreadPool(3);
  for (int i = 0; i < iters; ++i) {
    auto strand = yaclib::MakeStrand(tp);
    long counter = 0;
    std::atomic<int> done{0};
    std::vector<std::thread> subs;
    for (int k = 0; k < 3; ++k) {
      subs.emplace_back([&] {
        for (int j = 0; j < 4; ++j) {
          yaclib::Submit(*strand, [&] {
            ++counter;
            ++done;
          });
        }
      });
    }
    for (auto& t : subs) t.join();
    while (done.load() != 12) std::this_thread::yield();
    if (counter != 12) std::abort();
  }
  tp->Stop();
  tp->Wait();
}

// --- combinators: inputs completed on different threads, output read by the waiter
void WhenAllVector(int iters) {
  for (int i = 0; i < iters; ++i) {
    std::vector<yaclib::Future<Payload>> fs;
    std::vector<yaclib::Promise<Payload>> ps;
    for (int k = 0; k < 3; ++k) {
      auto [f, p] = yaclib::MakeContract<Payload>();
      fs.push_back(std::move(f));
      ps.push_back(std::move(p));
    }
    std::vector<std::thread> prods;
    for (int k = 0; k < 3; ++k) {
      prods.emplace_back([k, p = std::move(ps[k])]() mutable { std::move(p).Set(Payload(8, k)); });
    }
    auto all = yaclib::WhenAll(fs.begin(), fs.end());
    auto r = std::move(all).Get();
    long sum = 0;
    for (auto& v : std::as_const(r).Value())
      for (int x : v) sum += x;
    for (auto& t : prods) t.join();
    if (sum != 8 * 3) std::abort();
  }
}

void WhenAnyFirst(int iters) {
  for (int i = 0; i < iters; ++i) {
    std::vector<yaclib::Future<Payload>> fs;
    std::vector<yaclib::Promise<Payload>> ps;
    for (int k = 0; k < 3; ++k) {
      auto [f, p] = yaclib::MakeContract<Payload>();
      fs.push_back(std::move(f));
      ps.push_back(std::move(p));
    }
    std::vector<std::thread> prods;
    for (int k = 0; k < 3; ++k) {
      prods.emplace_back([k, p = std::move(ps[k])]() mutable {
        if (k == 1) std::move(p).Set(Payload(8, 1));
        else std::move(p).Set(yaclib::StopTag{});
      });
    }
    auto any = yaclib::WhenAny(fs.begin(), fs.end());
    auto r = std::move(any).Get();
    for (auto& t : prods) t.join();
    if (std::as_const(r).Value().size() != 8) std::abort();
  }
}

// --- pool: jobs hand plain data to each other through futures
void PoolPipeline(int iters) {
  auto tp = yaclib::MakeFairThreadPool(2);
  for (int i = 0; i < iters; ++i) {
    int plain = 0;
    auto f = yaclib::Run(*tp, [&] {
               plain = 1;
               return Payload{1, 2};
             })
               .Then([&](Payload v) {
                 plain += 1;
                 v.push_back(3);
                 return v;
               });
    auto r = std::move(f).Get();
    if (std::as_const(r).Value().size() != 3 || plain != 2) std::abort();
  }
  tp->Stop();
  tp->Wait();
}

}  // namespace

int main(int argc, char** argv) {
  std::string sc = argc > 1 ? argv[1] : "all";
  int iters = argc > 2 ? std::atoi(argv[2]) : 200;
  struct S { const char* name; void (*fn)(int); };
  const S all[] = {{"handoff_continuation", HandOffContinuation}, {"handoff_get", HandOffGet},
                   {"shared_moveout", SharedMoveOut},             {"shared_subscribers", SharedSubscribers},
                   {"strand_counter", StrandCounter},             {"when_all", WhenAllVector},
                   {"when_any", WhenAnyFirst},                    {"pool_pipeline", PoolPipeline}};
  bool ran = false;
  for (auto& s : all) {
    if (sc == "all" || sc == s.name) {
      s.fn(iters);
      std::printf("scenario %s done\n", s.name);
      ran = true;
    }
  }
  if (sc == "list") {
    for (auto& s : all) std::printf("%s\n", s.name);
    return 0;
  }
  return ran ? 0 : 2;
}
