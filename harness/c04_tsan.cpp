// C04 failing-input search on the implementation: real threads under ThreadSanitizer.
// Built against a TSAN build of the library (no fault injection). Each scenario is a small client that respects the
// documented threading contract; a ThreadSanitizer report in a scenario is a data race inside the library.
//   c04_tsan <scenario> <iterations>
#include <yaclib/async/contract.hpp>
#include <yaclib/async/future.hpp>
#include <yaclib/async/make.hpp>
#include <yaclib/async/run.hpp>
#include <yaclib/async/shared_contract.hpp>
#include <yaclib/async/shared_future.hpp>
#include <yaclib/algo/wait_group.hpp>
#include <yaclib/async/wait.hpp>
#include <yaclib/async/wait_for.hpp>
#include <yaclib/async/when_all.hpp>
#include <yaclib/async/when_any.hpp>
#include <yaclib/coro/await.hpp>
#include <yaclib/coro/future.hpp>
#include <yaclib/coro/on.hpp>
#include <yaclib/coro/mutex.hpp>
#include <yaclib/coro/shared_mutex.hpp>
#include <yaclib/exe/inline.hpp>
#include <yaclib/exe/strand.hpp>
#include <yaclib/exe/submit.hpp>
#include <yaclib/runtime/fair_thread_pool.hpp>

#include <atomic>
#include <chrono>
#include <cstdio>
#include <cstdlib>
#include <memory>
#include <random>
#include <string>
#include <thread>
#include <vector>

namespace {

using Payload = std::vector<int>;

// --- producer writes plain data before Set; consumers read it after observing completion
void HandOffContinuation(int iters) {
  for (int i = 0; i < iters; ++i) {
    int plain = 0;
    auto [f, p] = yaclib::MakeContract<Payload>();
    long sum = 0;
    std::thread prod([&, p = std::move(p)]() mutable {
      plain = 42;
      std::move(p).Set(Payload{1, 2, 3});
    });
    std::thread cons([&, f = std::move(f)]() mutable {
      std::move(f).DetachInline([&](yaclib::Result<Payload>&& r) {
        sum += plain;
        for (int x : std::as_const(r).Value()) sum += x;
      });
    });
    prod.join();
    cons.join();
    if (sum != 48) std::abort();
  }
}

void HandOffGet(int iters) {
  for (int i = 0; i < iters; ++i) {
    int plain = 0;
    auto [f, p] = yaclib::MakeContract<Payload>();
    std::thread prod([&, p = std::move(p)]() mutable {
      plain = 42;
      std::move(p).Set(Payload{1, 2, 3});
    });
    long sum = 0;
    std::thread cons([&, f = std::move(f)]() mutable {
      while (!f.Ready()) {
      }
      sum += plain;
      auto r = std::move(f).Get();
      for (int x : std::as_const(r).Value()) sum += x;
    });
    prod.join();
    cons.join();
    if (sum != 48) std::abort();
  }
}

// --- SharedFuture: one holder reads through its copy and drops it, another moves the value out as "last" holder
void SharedMoveOut(int iters) {
  for (int i = 0; i < iters; ++i) {
    auto [sf, sp] = yaclib::MakeSharedContract<Payload>();
    std::move(sp).Set(Payload(64, 7));
    auto copy = sf;
    long sum = 0;
    std::thread reader([&, c = std::move(copy)]() mutable {
      const auto& r = c.Get();  // read through the copy
      for (int x : r.Value()) sum += x;
      // c is destroyed here: DecRef (release)
    });
    std::thread mover([&, s = std::move(sf)]() mutable {
      auto r = std::move(s).Get();  // moves the value out iff GetRef() == 1
      if (std::as_const(r).Value().size() != 64) std::abort();
    });
    reader.join();
    mover.join();
    if (sum != 64 * 7) std::abort();
  }
}

void SharedSubscribers(int iters) {
  for (int i = 0; i < iters; ++i) {
    auto [sf, sp] = yaclib::MakeSharedContract<Payload>();
    int plain = 0;
    std::atomic<long> sum{0};
    std::thread prod([&, p = std::move(sp)]() mutable {
      plain = 5;
      std::move(p).Set(Payload{1, 2, 3});
    });
    std::vector<std::thread> obs;
    for (int k = 0; k < 3; ++k) {
      obs.emplace_back([&, c = sf]() mutable {
        c.SubscribeInline([&](const yaclib::Result<Payload>& r) {
          long s = plain;
          for (int x : r.Value()) s += x;
          sum += s;
        });
      });
    }
    prod.join();
    for (auto& t : obs) t.join();
    if (sum != 3 * 11) std::abort();
  }
}

// --- consecutive strand jobs touch a plain counter
void StrandCounter(int iters) {
  auto tp = yaclib::MakeFairThreadPool(3);
  for (int i = 0; i < iters; ++i) {
    auto strand = yaclib::MakeStrand(tp);
    long counter = 0;
    std::atomic<int> done{0};
    std::vector<std::thread> subs;
    for (int k = 0; k < 3; ++k) {
      subs.emplace_back([&] {
        for (int j = 0; j < 4; ++j) {
          yaclib::Submit(*strand, [&] {
            ++counter;
            ++done;
          });
        }
      });
    }
    for (auto& t : subs) t.join();
    while (done.load() != 12) std::this_thread::yield();
    if (counter != 12) std::abort();
  }
  tp->Stop();
  tp->Wait();
}

// --- combinators: inputs completed on different threads, output read by the waiter
void WhenAllVector(int iters) {
  for (int i = 0; i < iters; ++i) {
    std::vector<yaclib::Future<Payload>> fs;
    std::vector<yaclib::Promise<Payload>> ps;
    for (int k = 0; k < 3; ++k) {
      auto [f, p] = yaclib::MakeContract<Payload>();
      fs.push_back(std::move(f));
      ps.push_back(std::move(p));
    }
    std::vector<std::thread> prods;
    for (int k = 0; k < 3; ++k) {
      prods.emplace_back([k, p = std::move(ps[k])]() mutable { std::move(p).Set(Payload(8, k)); });
    }
    auto all = yaclib::WhenAll(fs.begin(), fs.end());
    auto r = std::move(all).Get();
    long sum = 0;
    for (auto& v : std::as_const(r).Value())
      for (int x : v) sum += x;
    for (auto& t : prods) t.join();
    if (sum != 8 * 3) std::abort();
  }
}

void WhenAnyFirst(int iters) {
  for (int i = 0; i < iters; ++i) {
    std::vector<yaclib::Future<Payload>> fs;
    std::vector<yaclib::Promise<Payload>> ps;
    for (int k = 0; k < 3; ++k) {
      auto [f, p] = yaclib::MakeContract<Payload>();
      fs.push_back(std::move(f));
      ps.push_back(std::move(p));
    }
    std::vector<std::thread> prods;
    for (int k = 0; k < 3; ++k) {
      prods.emplace_back([k, p = std::move(ps[k])]() mutable {
        if (k == 1) std::move(p).Set(Payload(8, 1));
        else std::move(p).Set(yaclib::StopTag{});
      });
    }
    auto any = yaclib::WhenAny(fs.begin(), fs.end());
    auto r = std::move(any).Get();
    for (auto& t : prods) t.join();
    if (std::as_const(r).Value().size() != 8) std::abort();
  }
}

// --- pool: jobs hand plain data to each other through futures
void PoolPipeline(int iters) {
  auto tp = yaclib::MakeFairThreadPool(2);
  for (int i = 0; i < iters; ++i) {
    int plain = 0;
    auto f = yaclib::Run(*tp, [&] {
               plain = 1;
               return Payload{1, 2};
             })
               .Then([&](Payload v) {
                 plain += 1;
                 v.push_back(3);
                 return v;
               });
    auto r = std::move(f).Get();
    if (std::as_const(r).Value().size() != 3 || plain != 2) std::abort();
  }
  tp->Stop();
  tp->Wait();
}

inline void Spin(unsigned n) {
  for (volatile unsigned i = 0; i < n; i = i + 1) {
  }
}

// --- hand-off with jitter: a persistent producer, so that Set lands before / inside / after the consumer's attach
void HandOffRace(int iters) {
  iters *= 100;
  static long side = 0;
  std::atomic<yaclib::Promise<Payload>*> slot{nullptr};
  std::atomic<bool> stop{false};
  std::thread producer([&] {
    std::mt19937 rng{1};
    for (;;) {
      yaclib::Promise<Payload>* p;
      while ((p = slot.load(std::memory_order_acquire)) == nullptr) {
        if (stop.load(std::memory_order_relaxed)) return;
      }
      slot.store(nullptr, std::memory_order_relaxed);
      Spin(rng() % 64);
      side += 1;
      std::move(*p).Set(Payload{1, 2, static_cast<int>(side)});
      delete p;
    }
  });
  std::mt19937 rng{2};
  long sink = 0;
  for (int i = 0; i < iters; ++i) {
    auto [f, p] = yaclib::MakeContract<Payload>();
    slot.store(new yaclib::Promise<Payload>{std::move(p)}, std::memory_order_release);
    Spin(rng() % 64);
    if (i % 2 == 0) {
      auto r = std::move(f).Get();
      sink += std::as_const(r).Value()[2];
    } else {
      std::atomic<bool> ran{false};
      std::move(f).DetachInline([&](yaclib::Result<Payload>&& r) {
        sink += std::as_const(r).Value()[2];
        ran.store(true, std::memory_order_release);
      });
      while (!ran.load(std::memory_order_acquire)) {
      }
    }
    sink += side;
  }
  stop.store(true);
  producer.join();
  if (sink == 0) std::abort();
}

// --- strand over the inline executor: the strand word alone orders the jobs of two client threads
void StrandInline(int iters) {
  iters *= 20;
  static long counter;
  counter = 0;
  auto strand = yaclib::MakeStrand(yaclib::IExecutorPtr{yaclib::NoRefTag{}, &yaclib::MakeInline()});
  auto client = [&](unsigned seed) {
    std::mt19937 rng{seed};
    for (int i = 0; i < iters; ++i) {
      yaclib::Submit(*strand, [] { ++counter; });
      Spin(rng() % 256);
    }
  };
  std::thread x{client, 1U}, y{client, 2U};
  x.join();
  y.join();
  if (counter != 2L * iters) std::abort();
}

// --- strand over an executor that runs every activation on a fresh thread
struct SpawnExecutor final : yaclib::IExecutor {
  Type Tag() const noexcept final { return Type::Custom; }
  bool Alive() const noexcept final { return true; }
  void Submit(yaclib::Job& job) noexcept final {
    live.fetch_add(1, std::memory_order_relaxed);
    std::thread{[this, &job] {
      job.Call();
      live.fetch_sub(1, std::memory_order_release);
    }}.detach();
  }
  std::atomic<int> live{0};
};

void StrandSpawn(int iters) {
  static long counter;
  counter = 0;
  SpawnExecutor spawn;
  std::mt19937 rng{3};
  {
    auto strand = yaclib::MakeStrand(yaclib::IExecutorPtr{yaclib::NoRefTag{}, &spawn});
    for (int i = 0; i < iters; ++i) {
      std::atomic<int> done{0};
      yaclib::Submit(*strand, [&] {
        ++counter;
        done.fetch_add(1, std::memory_order_release);
      });
      Spin(rng() % 20000);
      yaclib::Submit(*strand, [&] {
        ++counter;
        done.fetch_add(1, std::memory_order_release);
      });
      while (done.load(std::memory_order_acquire) != 2) std::this_thread::yield();
    }
    while (spawn.live.load(std::memory_order_acquire) != 0) std::this_thread::yield();
  }
  if (counter != 2L * iters) std::abort();
}

// --- coroutine Mutex / SharedMutex: critical sections touch plain data
yaclib::Future<> MutexWorker(yaclib::Mutex<>& m, long& cs, int iters, unsigned seed) {
  std::mt19937 rng{seed};
  for (int i = 0; i < iters; ++i) {
    co_await m.Lock();
    ++cs;
    m.UnlockHere();
    Spin(rng() % 32);
  }
  co_return{};
}

void CoMutex(int iters) {
  iters *= 50;
  static long cs;
  cs = 0;
  yaclib::Mutex<> m;
  std::vector<std::thread> ts;
  for (int t = 0; t < 4; ++t) {
    ts.emplace_back([&, t] {
      auto f = MutexWorker(m, cs, iters, 100U + static_cast<unsigned>(t));
      std::ignore = std::move(f).Get();
    });
  }
  for (auto& t : ts) t.join();
  if (cs != 4L * iters) std::abort();
}

yaclib::Future<> SharedMutexWorker(yaclib::SharedMutex<>& m, long& data, long& sum, int iters, bool writer, unsigned seed) {
  std::mt19937 rng{seed};
  for (int i = 0; i < iters; ++i) {
    if (writer) {
      co_await m.Lock();
      ++data;
      m.UnlockHere();
    } else {
      co_await m.LockShared();
      sum += data;
      m.UnlockHereShared();
    }
    Spin(rng() % 32);
  }
  co_return{};
}

void CoSharedMutex(int iters) {
  iters *= 20;
  static long data;
  data = 0;
  yaclib::SharedMutex<> m;
  long sums[3] = {0, 0, 0};
  std::vector<std::thread> ts;
  for (int t = 0; t < 4; ++t) {
    ts.emplace_back([&, t] {
      auto f = SharedMutexWorker(m, data, sums[t % 3], iters, t == 0, 200U + static_cast<unsigned>(t));
      std::ignore = std::move(f).Get();
    });
  }
  for (auto& t : ts) t.join();
  if (data != iters) std::abort();
}

// --- coroutines awaiting one SharedFuture from several threads while other threads subscribe and the producer fulfils:
// the awaited value must be visible after resumption, and nothing but the atomics may be shared (before /repo 8ca0444 the
// resumed coroutine swapped executors with the shared core while SetCallback read that field: D12)
yaclib::Future<int> CoAwaitShared(yaclib::SharedFuture<Payload> sf, yaclib::IExecutor& e) {
  co_await On(e);
  co_await Await(sf);
  const auto& r = sf.Touch();
  int sum = 0;
  for (int x : r.Value()) sum += x;
  co_return sum;
}

yaclib::Future<int> CoAwaitUnique(yaclib::Future<Payload> f) {
  auto v = co_await std::move(f);
  int sum = 0;
  for (int x : v) sum += x;
  co_return sum;
}

// A multi-Await whose objects are all pending when the awaiter registers (its constructor) and are all completed by another
// thread BEFORE await_ready() is evaluated: await_ready() sees counter == 1, await_suspend() is not called, so the acquire of
// that one load is the only thing ordering the producers' writes of the results before the coroutine's reads (C13, seeded
// change 3).  The interleaving is forced through a RELAXED flag (no happens-before through the flag).
template <bool Shared>
yaclib::Future<int> CoAwaitMaterialised(std::atomic<int>& stage, yaclib::Future<Payload>& f1, yaclib::Future<Payload>& f2,
                                        yaclib::SharedFuture<Payload> s1, yaclib::SharedFuture<Payload> s2) {
  int sum = 0;
  if constexpr (Shared) {
    auto aw = Await(s1, s2);  // registration: both pending, counter == 3
    stage.store(1, std::memory_order_relaxed);
    while (stage.load(std::memory_order_relaxed) != 2) {}
    co_await aw;  // await_ready: counter == 1 -> no suspension
    for (int x : s1.Touch().Value()) sum += x;
    for (int x : s2.Touch().Value()) sum += x;
  } else {
    auto aw = Await(f1, f2);
    stage.store(1, std::memory_order_relaxed);
    while (stage.load(std::memory_order_relaxed) != 2) {}
    co_await aw;
    for (int x : std::as_const(f1).Touch().Value()) sum += x;
    for (int x : std::as_const(f2).Touch().Value()) sum += x;
  }
  co_return sum;
}

void CoAwaitMulti(int iters) {
  for (int i = 0; i < iters; ++i) {
    auto [f1, p1] = yaclib::MakeContract<Payload>();
    auto [f2, p2] = yaclib::MakeContract<Payload>();
    auto [s1, q1] = yaclib::MakeSharedContract<Payload>();
    auto [s2, q2] = yaclib::MakeSharedContract<Payload>();
    const bool shared = (i % 2) == 1;
    std::atomic<int> stage{0};
    std::thread producer{[&, p1 = std::move(p1), p2 = std::move(p2), q1 = std::move(q1), q2 = std::move(q2)]() mutable {
      while (stage.load(std::memory_order_relaxed) != 1) {}
      if (shared) {
        std::move(q1).Set(Payload{1, 2, 3});
        std::move(q2).Set(Payload{4, 5});
      } else {
        std::move(p1).Set(Payload{1, 2, 3});
        std::move(p2).Set(Payload{4, 5});
      }
      stage.store(2, std::memory_order_relaxed);
    }};
    auto r = shared ? CoAwaitMaterialised<true>(stage, f1, f2, s1, s2) : CoAwaitMaterialised<false>(stage, f1, f2, s1, s2);
    producer.join();
    if (std::move(r).Get().Ok() != 15) std::abort();
  }
}

void CoAwait(int iters) {
  CoAwaitMulti(iters);
  yaclib::FairThreadPool tp1{2};
  yaclib::FairThreadPool tp2{2};
  for (int i = 0; i < iters; ++i) {
    auto [sf, sp] = yaclib::MakeSharedContract<Payload>();
    auto [uf, up] = yaclib::MakeContract<Payload>();
    std::atomic<int> go{0};
    int got[4] = {0, 0, 0, 0};
    std::vector<std::thread> ts;
    for (int t = 0; t < 2; ++t) {
      ts.emplace_back([&, t, sf = sf] {
        while (go.load(std::memory_order_acquire) == 0) {}
        auto f = CoAwaitShared(sf, t == 0 ? static_cast<yaclib::IExecutor&>(tp1) : tp2);
        got[t] = std::move(f).Get().Ok();
      });
    }
    ts.emplace_back([&, sf = sf] {
      while (go.load(std::memory_order_acquire) == 0) {}
      // attached without an executor: the step inherits the shared core's executor — some of these land while the
      // producer is still walking the list and resuming the coroutines
      int n = 0;
      for (int k = 0; k < 6; ++k) {
        auto f = sf.ThenInline([](const Payload& p) { return static_cast<int>(p.size()); });
        n = std::move(f).Get().Ok();
        Spin(8);
      }
      got[2] = n;
    });
    ts.emplace_back([&, uf = std::move(uf)]() mutable {
      while (go.load(std::memory_order_acquire) == 0) {}
      auto f = CoAwaitUnique(std::move(uf));
      got[3] = std::move(f).Get().Ok();
    });
    go.store(1, std::memory_order_release);
    Spin(static_cast<unsigned>(i % 64));
    std::move(sp).Set(Payload{1, 2, 3});
    std::move(up).Set(Payload{4, 5});
    for (auto& t : ts) t.join();
    if (got[0] != 6 || got[1] != 6 || got[2] != 3 || got[3] != 9) std::abort();
  }
  tp1.Stop();
  tp1.Wait();
  tp2.Stop();
  tp2.Wait();
}

// --- C16 / C11: what was done before Done() / Promise::Set is visible after Wait / WaitFor / co_await (memory-model side).
// The threads learn about each other only through RELAXED flags (no happens-before edge for ThreadSanitizer), so the only
// thing that orders the plain write with the plain read is the WaitGroup / the wait event itself.
enum class WgForm { kWait, kWaitFor, kWaitUntil, kAwaitInline, kAwaitSticky, kAwaitOn };

yaclib::Future<> WgAwait(yaclib::WaitGroup<>& wg, WgForm form, int& payload, int& seen) {
  if (form == WgForm::kAwaitInline) {
    co_await wg;
  } else if (form == WgForm::kAwaitSticky) {
    co_await wg.AwaitSticky();
  } else {
    co_await wg.AwaitOn(yaclib::MakeInline());
  }
  seen = payload;
  co_return{};
}

void WgWaitAndRead(yaclib::WaitGroup<>& wg, WgForm form, int& payload, int& seen, std::atomic<bool>* parked) {
  using namespace std::chrono_literals;
  switch (form) {
    case WgForm::kWait:
      if (parked) parked->store(true, std::memory_order_relaxed);
      wg.Wait();
      seen = payload;
      break;
    case WgForm::kWaitFor:
      if (parked) parked->store(true, std::memory_order_relaxed);
      if (!wg.WaitFor(20s)) std::abort();
      seen = payload;
      break;
    case WgForm::kWaitUntil:
      if (parked) parked->store(true, std::memory_order_relaxed);
      if (!wg.WaitUntil(std::chrono::steady_clock::now() + 20s)) std::abort();
      seen = payload;
      break;
    default: {
      auto f = WgAwait(wg, form, payload, seen);  // suspends unless the count is already zero
      if (parked) parked->store(true, std::memory_order_relaxed);
      std::ignore = std::move(f).Get();
    } break;
  }
}

// a waiter that ARRIVES AFTER the count reached zero (TryAdd / Ready() see the all-done sentinel): its only synchronisation
// with the thread that did the last Done() is the head word (SetImpl's exchange must release, the waiter's load acquires)
void WaitGroupLate(int iters) {
  const WgForm forms[] = {WgForm::kWait, WgForm::kWaitFor, WgForm::kWaitUntil, WgForm::kAwaitInline, WgForm::kAwaitSticky,
                          WgForm::kAwaitOn};
  const int rounds = iters / 25 + 1;
  for (int r = 0; r < rounds; ++r) {
    for (auto form : forms) {
      auto payload = std::make_unique<int>(0);  // own address per run
      yaclib::WaitGroup<> wg{1};
      std::atomic<bool> zero_reached{false};
      int seen = -1;
      std::thread setter{[&] {
        *payload = 42;
        wg.Done();  // 1 -> 0: Set()
        zero_reached.store(true, std::memory_order_relaxed);
      }};
      std::thread late{[&] {
        while (!zero_reached.load(std::memory_order_relaxed)) std::this_thread::yield();
        WgWaitAndRead(wg, form, *payload, seen, nullptr);
      }};
      setter.join();
      late.join();
      if (seen != 42) std::abort();
    }
  }
}

// the Done() / future completion that takes the count to zero is NOT the one whose writes are read afterwards: worker A's
// release on the counter must be acquired by worker B (which reaches zero and hands over to the waiters through the event)
void WaitGroupTwoDoners(int iters) {
  using namespace std::chrono_literals;
  const WgForm forms[] = {WgForm::kWait, WgForm::kWaitFor, WgForm::kAwaitInline, WgForm::kAwaitSticky, WgForm::kAwaitOn};
  const int rounds = iters / 50 + 1;
  for (int r = 0; r < rounds; ++r) {
    for (bool futures : {false, true}) {
      for (auto form : forms) {
        auto payload = std::make_unique<int>(0);
        yaclib::WaitGroup<> wg{futures ? 1U : 2U};
        auto [f1, p1] = yaclib::MakeContract<int>();
        auto [f2, p2] = yaclib::MakeContract<int>();
        if (futures) {
          wg.Attach(f1, f2);  // Add while the count is non-zero
          wg.Done();
        }
        std::atomic<bool> parked{false};
        std::atomic<bool> a_done{false};
        int seen = -1;
        int seen_result = -1;
        std::thread waiter{[&] {
          WgWaitAndRead(wg, form, *payload, seen, &parked);
          // Touch(): no Ready()/Get() on f1, which would synchronise through the future's own word
          if (futures) seen_result = std::as_const(f1).Touch().Value();
        }};
        while (!parked.load(std::memory_order_relaxed)) std::this_thread::yield();
        std::this_thread::sleep_for(1ms);  // let the blocking forms enqueue (a late waiter is WaitGroupLate's business)
        std::thread worker_a{[&] {
          *payload = 42;
          if (futures) std::move(p1).Set(7);  // callback: Sub(1), 2 -> 1
          else wg.Done();                     // 2 -> 1
          a_done.store(true, std::memory_order_relaxed);
        }};
        std::thread worker_b{[&] {
          while (!a_done.load(std::memory_order_relaxed)) std::this_thread::yield();
          if (futures) std::move(p2).Set(8);  // callback: Sub(1), 1 -> 0: Set()
          else wg.Done();                     // 1 -> 0: Set()
        }};
        worker_a.join();
        worker_b.join();
        waiter.join();
        if (seen != 42 || (futures && seen_result != 7)) std::abort();
        if (!futures) {  // the promises were not used
          std::move(p1).Set(0);
          std::move(p2).Set(0);
        }
      }
    }
  }
}

void WaitGroupBoth(int iters) {
  WaitGroupLate(iters);
  WaitGroupTwoDoners(iters);
}

// C11: Wait(f1, f2) / WaitFor(t, f1, f2) share one counter: producer A (not the last) writes plain data before Set, producer B
// completes last and wakes the waiter; the waiter reads A's plain data without touching f1's word again
void WaitTwoProducers(int iters) {
  using namespace std::chrono_literals;
  const int rounds = iters / 25 + 1;
  for (int r = 0; r < rounds; ++r) {
    for (bool timed : {false, true}) {
      auto payload = std::make_unique<int>(0);
      auto [f1, p1] = yaclib::MakeContract<int>();
      auto [f2, p2] = yaclib::MakeContract<int>();
      std::atomic<bool> parked{false};
      std::atomic<bool> a_done{false};
      int seen = -1;
      std::thread waiter{[&] {
        parked.store(true, std::memory_order_relaxed);
        if (timed) {
          if (!yaclib::WaitFor(20s, f1, f2)) std::abort();
        } else {
          yaclib::Wait(f1, f2);
        }
        seen = *payload;
      }};
      while (!parked.load(std::memory_order_relaxed)) std::this_thread::yield();
      std::this_thread::sleep_for(1ms);  // let the waiter register its event in both words
      std::thread producer_a{[&, p1 = std::move(p1)]() mutable {
        *payload = 42;
        std::move(p1).Set(7);
        a_done.store(true, std::memory_order_relaxed);
      }};
      std::thread producer_b{[&, p2 = std::move(p2)]() mutable {
        while (!a_done.load(std::memory_order_relaxed)) std::this_thread::yield();
        std::move(p2).Set(8);
      }};
      producer_a.join();
      producer_b.join();
      waiter.join();
      if (seen != 42) std::abort();
    }
  }
}

}  // namespace

int main(int argc, char** argv) {
  std::string sc = argc > 1 ? argv[1] : "all";
  int iters = argc > 2 ? std::atoi(argv[2]) : 200;
  struct S { const char* name; void (*fn)(int); };
  const S all[] = {{"handoff_continuation", HandOffContinuation}, {"handoff_get", HandOffGet},
                   {"shared_moveout", SharedMoveOut},             {"shared_subscribers", SharedSubscribers},
                   {"strand_counter", StrandCounter},             {"when_all", WhenAllVector},
                   {"when_any", WhenAnyFirst},                    {"pool_pipeline", PoolPipeline},
                   {"handoff_race", HandOffRace},                 {"strand_inline", StrandInline},
                   {"strand_spawn", StrandSpawn},                 {"comutex", CoMutex},
                   {"cosharedmutex", CoSharedMutex},         {"coawait", CoAwait},
                   {"waitgroup_late", WaitGroupLate},             {"waitgroup_two_doners", WaitGroupTwoDoners},
                   {"waitgroup", WaitGroupBoth},                  {"wait_two_producers", WaitTwoProducers}};
  bool ran = false;
  for (auto& s : all) {
    if ((sc == "all" && std::string(s.name) != "waitgroup") || sc == s.name) {
      s.fn(iters);
      std::printf("scenario %s done\n", s.name);
      ran = true;
    }
  }
  if (sc == "list") {
    for (auto& s : all) std::printf("%s\n", s.name);
    return 0;
  }
  return ran ? 0 : 2;
}
