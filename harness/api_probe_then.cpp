// API instantiation sweep, area `then`: the continuation API of the unique handles (async/future.hpp Future / FutureOn:
// ThenInline, Then(e, f), Then(f), DetachInline, Detach(e, f), Detach(f)) over the matrix
//   value type x error type x signature class of the callback argument x return class x kind of callable.
// The shared handles are in api_probe_shared.cpp, Task in api_probe_lazy.cpp.  C++17-clean.
#include <yaclib/async/future.hpp>
#include <yaclib/async/make.hpp>
#include <yaclib/exe/inline.hpp>
#include <yaclib/exe/manual.hpp>

#include "api_probe.hpp"
#include "api_probe_cb.hpp"

#ifndef API_PROBE_SMOKE_ONLY
namespace probe {
namespace {

using yaclib::Future;
using yaclib::FutureOn;
using yaclib::IExecutor;
using yaclib::Result;
using yaclib::StopError;

template <typename V, typename E>
void ContinuationsFull() {
  // full argument x return cross on the three core shapes (inline / executor / FutureOn's own executor)
  ArgsRets<ThenInline, Future<V, E>, V, E, void>();
  ArgsRets<ThenInline, Future<V, E>, V, E, int>();
  RecoverRets<ThenInline, Future<V, E>, V, E>();
  ArgsRets<ThenExec, Future<V, E>, V, E, int>();
  RecoverRets<ThenExec, Future<V, E>, V, E>();
  ArgsRets<ThenOn, FutureOn<V, E>, V, E, int>();
  RecoverRets<ThenOn, FutureOn<V, E>, V, E>();
}

template void ContinuationsFull<void, StopError>();
template void ContinuationsFull<int, StopError>();

// the kinds of callable the API documents as "Func": lambda, mutable lambda, move-only functor, rvalue-qualified functor,
// lvalue / const lvalue functor, function reference, function pointer, std::function, generic lambda
void CallableKinds() {
  using H = Future<int>;
  Fn<int, int> lvalue;
  const Fn<int, int> clvalue;
  std::function<int(int)> function = lvalue;
  Sink(Build<H>::Do().ThenInline([](int x) {
    return x;
  }));
  Sink(Build<H>::Do().ThenInline([s = MoveOnly{}](int x) mutable {
    return x + s.x;
  }));
  Sink(Build<H>::Do().ThenInline(MutFn<int, int>{}));
  Sink(Build<H>::Do().ThenInline(RvFn<int, int>{}));
  Sink(Build<H>::Do().ThenInline(lvalue));
  Sink(Build<H>::Do().ThenInline(clvalue));
  Sink(Build<H>::Do().ThenInline(FreeFn<int, int>));
  Sink(Build<H>::Do().ThenInline(&FreeFn<int, int>));
  Sink(Build<H>::Do().ThenInline(function));
  Sink(Build<H>::Do().ThenInline(std::move(function)));
  Sink(Build<H>::Do().ThenInline([](auto&& x) {
    return std::forward<decltype(x)>(x);
  }));
  Sink(Build<H>::Do().Then(Exec(), FreeFn<void, Result<int>&&>));
  Sink(Build<FutureOn<>>::Do().Then(FreeFn<void>));
  Build<FutureOn<>>::Do().Detach(FreeFn<void>);
  Build<H>::Do().DetachInline(MutFn<void, int>{});
  Build<H>::Do().Detach(Exec(), RvFn<void, Result<int>>{});
  // chains: the returned handle kinds
  static_assert(std::is_same_v<decltype(Build<H>::Do().ThenInline(lvalue)), Future<int>>);
  static_assert(std::is_same_v<decltype(Build<H>::Do().Then(Exec(), lvalue)), FutureOn<int>>);
  static_assert(std::is_same_v<decltype(Build<FutureOn<int>>::Do().ThenInline(lvalue)), FutureOn<int>>);
  static_assert(std::is_same_v<decltype(Build<FutureOn<int>>::Do().Then(lvalue)), FutureOn<int>>);
  static_assert(std::is_same_v<decltype(Build<H>::Do().ThenInline(Fn<yaclib::Task<std::string>, int>{})), Future<std::string>>);
  static_assert(std::is_same_v<decltype(Build<H>::Do().ThenInline(Fn<yaclib::SharedFutureOn<std::string>, int>{})), Future<std::string>>);
  static_assert(std::is_same_v<decltype(Build<H>::Do().ThenInline(Fn<Result<void>, int>{})), Future<void>>);
}

}  // namespace
}  // namespace probe
#endif  // API_PROBE_SMOKE_ONLY

int api_probe_then(int argc) {
#ifndef API_PROBE_SMOKE_ONLY
  if (argc > 1000) {
    probe::ContinuationsFull<int, yaclib::StopError>();
    probe::CallableKinds();
  }
#endif
  // smoke: value / Result / recovery / unwrapping continuations over the inline and the manual executor
  (void)argc;
  yaclib::ManualExecutor manual;
  int seen = 0;
  auto f = yaclib::MakeFuture(20)
             .Then(manual,
                   [](int x) {
                     return yaclib::MakeFuture(x + 1);
                   })
             .ThenInline([](yaclib::Result<int>&& r) {
               return yaclib::MakeTask(std::move(r).Ok() * 2);
             })
             .Then([](int x) -> yaclib::Result<int> {
               if (x == 42) {
                 return yaclib::StopTag{};
               }
               return x;
             })
             .ThenInline([](yaclib::StopError) {
               return 42;
             });
  std::move(f).Detach([&](int x) {
    seen = x;
  });
  while (manual.Drain() != 0) {
  }
  return seen == 42 ? 0 : 1;
}

#ifndef API_PROBE_NO_MAIN
int main(int argc, char**) {
  return api_probe_then(argc);
}
#endif
