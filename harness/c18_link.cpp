// C18 link probe: every public member of every yaclib_std lock / condition variable / thread type, in every overload, with a
// deadline of each yaclib_std::chrono clock, must compile AND link under the FIBER backend.  (Regression for D11, fixed 72143ee:
// the cv_status-returning timed waits of condition_variable called a `constexpr` CVStatusFrom that was defined only in a .cpp.)
// The program is only built, never run.  native_handle() is probed separately (harness/c18_link_nh.cpp, D15).
#include <chrono>
#include <mutex>
#include <shared_mutex>
#include <yaclib_std/chrono>
#include <yaclib_std/condition_variable>
#include <yaclib_std/mutex>
#include <yaclib_std/shared_mutex>
#include <yaclib_std/thread>
#include <yaclib_std/thread_local>

static YACLIB_THREAD_LOCAL_PTR(int) tls_a;
static int slot;
static YACLIB_THREAD_LOCAL_PTR(int) tls_b{&slot};

template <typename M>
int Plain(M& m) {
  m.lock();
  m.unlock();
  int r = m.try_lock() ? 1 : 0;
  if (r) m.unlock();
  return r;
}

template <typename M>
int Timed(M& m) {
  using namespace std::chrono_literals;
  int r = 0;
  if (m.try_lock_for(1ns)) { ++r; m.unlock(); }
  if (m.try_lock_for(std::chrono::milliseconds{1})) { ++r; m.unlock(); }
  if (m.try_lock_until(yaclib_std::chrono::steady_clock::now() + 1ns)) { ++r; m.unlock(); }
  if (m.try_lock_until(yaclib_std::chrono::system_clock::now() + 1ns)) { ++r; m.unlock(); }
  if (m.try_lock_until(yaclib_std::chrono::high_resolution_clock::now() + 1ns)) { ++r; m.unlock(); }
  return r;
}

template <typename M>
int Shared(M& m) {
  m.lock_shared();
  m.unlock_shared();
  int r = m.try_lock_shared() ? 1 : 0;
  if (r) m.unlock_shared();
  return r;
}

template <typename M>
int SharedTimed(M& m) {
  using namespace std::chrono_literals;
  int r = 0;
  if (m.try_lock_shared_for(1ns)) { ++r; m.unlock_shared(); }
  if (m.try_lock_shared_until(yaclib_std::chrono::steady_clock::now() + 1ns)) { ++r; m.unlock_shared(); }
  if (m.try_lock_shared_until(yaclib_std::chrono::system_clock::now() + 1ns)) { ++r; m.unlock_shared(); }
  if (m.try_lock_shared_until(yaclib_std::chrono::high_resolution_clock::now() + 1ns)) { ++r; m.unlock_shared(); }
  return r;
}

int main() {
  using namespace std::chrono_literals;
  yaclib_std::mutex m;
  yaclib_std::timed_mutex tm;
  yaclib_std::recursive_mutex rm;
  yaclib_std::recursive_timed_mutex rtm;
  yaclib_std::shared_mutex sm;
  yaclib_std::shared_timed_mutex stm;
  yaclib_std::condition_variable cv;
  int r = Plain(m) + Plain(tm) + Plain(rm) + Plain(rtm) + Plain(sm) + Plain(stm);
  r += Timed(tm) + Timed(rtm) + Timed(stm);
  r += Shared(sm) + Shared(stm) + SharedTimed(stm);
  {
    std::unique_lock lock{m};
    bool flag = true;
    auto pred = [&] { return flag; };
    cv.notify_one();
    cv.notify_all();
    cv.wait(lock, pred);
    auto a = cv.wait_for(lock, 1ns);
    bool b = cv.wait_for(lock, 1ns, pred);
    auto c = cv.wait_until(lock, yaclib_std::chrono::steady_clock::now());
    auto d = cv.wait_until(lock, yaclib_std::chrono::system_clock::now());
    auto e = cv.wait_until(lock, yaclib_std::chrono::high_resolution_clock::now());
    bool f = cv.wait_until(lock, yaclib_std::chrono::steady_clock::now(), pred);
    bool g = cv.wait_until(lock, yaclib_std::chrono::system_clock::now(), pred);
    bool h = cv.wait_until(lock, yaclib_std::chrono::high_resolution_clock::now(), pred);
    r += (a == c) + (d == e) + b + f + g + h;
    if (r < 0) cv.wait(lock);
  }
  {
    std::shared_lock s1{sm};
    std::shared_lock s2{stm, 1ns};
    std::unique_lock u1{tm, 1ns};
    std::scoped_lock u2{m, rm};
    r += s1.owns_lock() + s2.owns_lock() + u1.owns_lock();
  }
  yaclib_std::thread t{[&] {
    tls_a = &slot;
    // (the proxy has no conversion to `int*`: portable code reads through * -> [] bool == !=)
    r += (tls_a == tls_b) + (tls_a != tls_b) + (tls_a == &slot) + (tls_a ? *tls_a + tls_a[0] : 0);
    tls_b = tls_a;
    tls_a = nullptr;
    yaclib_std::this_thread::yield();
    yaclib_std::this_thread::sleep_for(1ns);
    yaclib_std::this_thread::sleep_until(yaclib_std::chrono::steady_clock::now() + 1ns);
    yaclib_std::this_thread::sleep_until(yaclib_std::chrono::system_clock::now() + 1ns);
    yaclib_std::this_thread::sleep_until(yaclib_std::chrono::high_resolution_clock::now() + 1ns);
    (void)yaclib_std::this_thread::get_id();
  }};
  (void)t.get_id();
  (void)t.joinable();
  (void)yaclib_std::thread::hardware_concurrency();
  t.join();
  yaclib_std::thread t2{[] {}};
  t2.detach();
  return r;
}
