// C18 link probe (regression for D11, fixed 72143ee): the timed waits of yaclib_std::condition_variable that return
// std::cv_status call `CVStatusFrom`; it was declared `constexpr` (hence inline) in
// include/yaclib/fault/detail/condition_variable.hpp and defined only in src/fault/condition_variable.cpp, so every program
// that called them failed to link under YACLIB_FAULT != OFF.  This file must compile and link.
#include <chrono>
#include <mutex>
#include <yaclib_std/condition_variable>
#include <yaclib_std/mutex>

int main() {
  yaclib_std::mutex m;
  yaclib_std::condition_variable cv;
  std::unique_lock lock{m};
  auto a = cv.wait_for(lock, std::chrono::nanoseconds{1});
  auto b = cv.wait_until(lock, yaclib_std::chrono::steady_clock::now());
  return a == b ? 0 : 1;
}
