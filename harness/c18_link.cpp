// C18 link probe (D11): the timed waits of yaclib_std::condition_variable that return std::cv_status call
// `CVStatusFrom`, which include/yaclib/fault/detail/condition_variable.hpp declares `constexpr` (hence inline) and only
// src/fault/condition_variable.cpp defines: every program that calls them fails to link under YACLIB_FAULT != OFF.
#include <chrono>
#include <mutex>
#include <yaclib_std/condition_variable>
#include <yaclib_std/mutex>

int main() {
  yaclib_std::mutex m;
  yaclib_std::condition_variable cv;
  std::unique_lock lock{m};
  auto a = cv.wait_for(lock, std::chrono::nanoseconds{1});
  auto b = cv.wait_until(lock, yaclib_std::chrono::steady_clock::now());
  return a == b ? 0 : 1;
}
