// API instantiation sweep, area `when`: async/when_all.hpp (+ async/when/{when,all,all_tuple,join}.hpp through it).  C++17-clean.
// WhenAny / Join / user-defined strategies are in api_probe_when2.cpp.  See api_probe.hpp for the conventions.
//
// Documented constraints that are NOT probed because they are static_asserts of the library (class (b)):
//   WhenAll / Join with FailPolicy::LastFail ("LastFail policy is not supported by All / AllTuple / Join");
//   all inputs of one call have the same error type (when::CheckSameError).
#include <yaclib/async/when_all.hpp>
// the header above is the whole include list a user of WhenAll needs
#include <yaclib/async/run.hpp>
#include <yaclib/exe/manual.hpp>

#include "api_probe.hpp"
#include "api_probe_cb.hpp"

#include <array>
#include <deque>
#include <tuple>
#include <vector>

#ifndef API_PROBE_SMOKE_ONLY
namespace probe {
namespace {

using yaclib::FailPolicy;
using yaclib::Future;
using yaclib::FutureOn;
using yaclib::Result;
using yaclib::SharedFuture;
using yaclib::SharedFutureOn;
using yaclib::StopError;

template <typename H>
H Src() {
  return Build<H>::Do();
}
template <typename H>
std::vector<H> Vec() {
  std::vector<H> v;
  v.push_back(Src<H>());
  v.push_back(Src<H>());
  return v;
}

template <typename V>
using Wrapped = yaclib::wrap_void_t<V>;

// the element type of WhenAll's containers (public alias of when_all.hpp)
static_assert(std::is_same_v<yaclib::ContainerElem<yaclib::detail::UniqueCore<int, StopError>, FailPolicy::FirstFail>, int>);
static_assert(std::is_same_v<yaclib::ContainerElem<yaclib::detail::UniqueCore<void, StopError>, FailPolicy::FirstFail>, yaclib::Unit>);
static_assert(std::is_same_v<yaclib::ContainerElem<yaclib::detail::SharedCore<void, UserError>, FailPolicy::None>, Result<void, UserError>>);

// ---- WhenAll -------------------------------------------------------------------------------------------------------------
// same value type: vector (or void for void inputs under FirstFail)
template <typename H, typename V, typename E>
void WhenAllSame() {
  auto a = yaclib::WhenAll(Src<H>());  // default policy: FirstFail
  auto b = yaclib::WhenAll(Src<H>(), Src<H>());
  auto c = yaclib::WhenAll<FailPolicy::FirstFail>(Src<H>(), Src<H>(), Src<H>());
  auto d = yaclib::WhenAll<FailPolicy::None>(Src<H>());
  auto e = yaclib::WhenAll<FailPolicy::None>(Src<H>(), Src<H>());
  using FirstFail = std::conditional_t<std::is_void_v<V>, void, std::vector<V>>;
  static_assert(std::is_same_v<decltype(b), Future<FirstFail, E>>);
  static_assert(std::is_same_v<decltype(e), Future<std::vector<Result<V, E>>, E>>);
  Sink(a, b, c, d, e);
  // iterator forms
  auto v = Vec<H>();
  auto f = yaclib::WhenAll(v.begin(), v.end());
  v = Vec<H>();
  auto g = yaclib::WhenAll(v.begin(), v.size());
  v = Vec<H>();
  auto h = yaclib::WhenAll<FailPolicy::None>(v.begin(), v.end());
  v = Vec<H>();
  auto i = yaclib::WhenAll<FailPolicy::None>(v.data(), v.size());
  v = Vec<H>();
  auto j = yaclib::WhenAll<FailPolicy::FirstFail>(v.data(), v.data() + v.size());
  static_assert(std::is_same_v<decltype(f), Future<FirstFail, E>> && std::is_same_v<decltype(g), Future<FirstFail, E>>);
  static_assert(std::is_same_v<decltype(h), Future<std::vector<Result<V, E>>, E>>);
  std::array<H, 2> arr{Src<H>(), Src<H>()};
  auto k = yaclib::WhenAll(arr.begin(), arr.end());
  std::deque<H> deq;
  deq.push_back(Src<H>());
  auto l = yaclib::WhenAll(deq.begin(), deq.end());
  Sink(f, g, h, i, j, k, l);
}

// different value types: tuple
template <typename E>
void WhenAllTuple() {
  auto a = yaclib::WhenAll(Src<Future<int, E>>(), Src<Future<std::string, E>>());
  static_assert(std::is_same_v<decltype(a), Future<std::tuple<int, std::string>, E>>);
  auto b = yaclib::WhenAll(Src<Future<int, E>>(), Src<Future<void, E>>(), Src<FutureOn<MoveOnly, E>>());
  static_assert(std::is_same_v<decltype(b), Future<std::tuple<int, yaclib::Unit, MoveOnly>, E>>);
  // (a tuple of move-only values is fine: std::tuple's copy constructor is constrained)
  auto c = yaclib::WhenAll<FailPolicy::None>(Src<Future<int, E>>(), Src<Future<void, E>>(), Src<FutureOn<MoveOnly, E>>(), Src<Future<Pinned, E>>());
  static_assert(std::is_same_v<decltype(c), Future<std::tuple<Result<int, E>, Result<void, E>, Result<MoveOnly, E>, Result<Pinned, E>>, E>>);
  // shared and unique inputs together, repeated core types
  auto d = yaclib::WhenAll(Src<SharedFuture<int, E>>(), Src<Future<std::string, E>>(), Src<SharedFutureOn<int, E>>(), Src<Future<std::string, E>>(),
                           Src<SharedFuture<void, E>>());
  static_assert(std::is_same_v<decltype(d), Future<std::tuple<int, std::string, int, std::string, yaclib::Unit>, E>>);
  auto e = yaclib::WhenAll<FailPolicy::None>(Src<SharedFuture<int, E>>(), Src<Future<std::string, E>>(), Src<SharedFutureOn<NoDefault, E>>());
  Sink(a, b, c, d, e);
#ifdef API_PROBE_KNOWN_3
  // KNOWN_3 (b/limitation): under FirstFail the output tuple std::tuple<V...> is a default-constructed member of when::AllTuple
  // (`OutputValue _tuple;`), so a heterogeneous WhenAll over a value type without a default constructor does not compile
  // ("no matching function for call to 'std::tuple<int, probe::Pinned>::tuple()'"); FailPolicy::None (tuple of Results) is fine.
  // notes/api_probe.md #3.
  auto k3 = yaclib::WhenAll(Src<Future<int, E>>(), Src<Future<Pinned, E>>());
  Sink(k3);
#endif
}

// same value type, different handle kinds (unique and shared cores in one vector-producing call)
template <typename V, typename E>
void WhenAllMixedHandles() {
  auto a = yaclib::WhenAll(Src<Future<V, E>>(), Src<FutureOn<V, E>>());
  auto b = yaclib::WhenAll(Src<Future<V, E>>(), Src<SharedFuture<V, E>>(), Src<SharedFutureOn<V, E>>(), Src<FutureOn<V, E>>());
  auto c = yaclib::WhenAll<FailPolicy::None>(Src<SharedFuture<V, E>>(), Src<Future<V, E>>(), Src<SharedFuture<V, E>>());
  auto d = yaclib::WhenAll(Src<SharedFuture<V, E>>(), Src<SharedFutureOn<V, E>>());
  Sink(a, b, c, d);
}

// ---- the matrix --------------------------------------------------------------------------------------------------------------
template <typename V, typename E>
void UniqueForms() {
  if constexpr (std::is_void_v<V> || std::is_copy_constructible_v<V>) {
    WhenAllSame<Future<V, E>, V, E>();
    WhenAllSame<FutureOn<V, E>, V, E>();
  } else {
#ifdef API_PROBE_KNOWN_5
    // KNOWN_5 (a): WhenAll over futures of a move-only value produces Future<std::vector<V>> / Future<std::vector<Result<V, E>>>, and
    // NO Future / Promise / Task whose value is a standard container of a move-only type can be instantiated at all:
    // detail::ResultCore<V, E>::Impl selects its copy branch with std::is_copy_constructible_v<Result<V, E>>, which is true for
    // std::vector<MoveOnly> (the container's copy constructor is not constrained), and the copy then fails to instantiate inside the
    // virtual UniqueCore<V, E>::Here.  Minimal form: api_probe_async.cpp KNOWN_5.  notes/api_probe.md #5.
    WhenAllSame<Future<V, E>, V, E>();
    WhenAllSame<FutureOn<V, E>, V, E>();
#endif
  }
}
template <typename V, typename E>
void SharedForms() {
  WhenAllSame<SharedFuture<V, E>, V, E>();
  WhenAllSame<SharedFutureOn<V, E>, V, E>();
  WhenAllMixedHandles<V, E>();
}
template <typename E>
void AllForms() {
  UniqueForms<void, E>();
  UniqueForms<int, E>();
  UniqueForms<std::string, E>();
  UniqueForms<MoveOnly, E>();
  UniqueForms<Pinned, E>();
  SharedForms<void, E>();
  SharedForms<int, E>();
  SharedForms<std::string, E>();
  SharedForms<NoDefault, E>();
  WhenAllTuple<E>();
}
// a user error type: one copyable, one move-only value type (the strategies do not depend on E beyond passing it through)
template <typename E>
void SomeForms() {
  UniqueForms<int, E>();
  UniqueForms<Pinned, E>();
  SharedForms<NoDefault, E>();
  WhenAllTuple<E>();
}
template void AllForms<StopError>();
template void SomeForms<UserError>();

}  // namespace
}  // namespace probe
#endif  // API_PROBE_SMOKE_ONLY

int api_probe_when(int argc) {
  (void)argc;
#ifndef API_PROBE_SMOKE_ONLY
  if (argc > 1000) {
    probe::AllForms<yaclib::StopError>();
  }
#endif
  // smoke
  yaclib::ManualExecutor manual;
  auto run = [&](int x) {
    return yaclib::Run(manual, [x] {
      return x;
    });
  };
  auto all = yaclib::WhenAll(run(1), run(2), run(3));
  auto tuple = yaclib::WhenAll(run(4), yaclib::MakeFuture(std::string{"s"}), yaclib::MakeFuture());
  std::vector<yaclib::FutureOn<int>> fs;
  fs.push_back(run(7));
  fs.push_back(run(8));
  auto results = yaclib::WhenAll<yaclib::FailPolicy::None>(fs.begin(), fs.end());
  auto [sf, sp] = yaclib::MakeSharedContract<int>();
  auto mixed = yaclib::WhenAll<yaclib::FailPolicy::None>(sf, run(9), sf);
  std::move(sp).Set(10);
  while (manual.Drain() != 0) {
  }
  int sum = 0;
  const std::vector<int> all_values = std::move(all).Get().Ok();
  for (int x : all_values) {
    sum += x;
  }
  sum += std::get<0>(std::move(tuple).Get().Ok());
  const std::vector<yaclib::Result<int>> result_values = std::move(results).Get().Ok();
  for (const auto& r : result_values) {
    sum += r.Ok();
  }
  const std::vector<yaclib::Result<int>> mixed_values = std::move(mixed).Get().Ok();
  for (const auto& r : mixed_values) {
    sum += r.Ok();
  }
  return sum == 6 + 4 + 15 + 29 ? 0 : 1;
}

#ifndef API_PROBE_NO_MAIN
int main(int argc, char**) {
  return api_probe_when(argc);
}
#endif
