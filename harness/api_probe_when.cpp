// API instantiation sweep, area `when`: async/{when_all,when_any,join}.hpp (+ async/when/*.hpp through them).  C++17-clean.
// See api_probe.hpp for the conventions.
//
// Documented constraints that are NOT probed because they are static_asserts of the library (class (b)):
//   WhenAll / Join with FailPolicy::LastFail ("LastFail policy is not supported by All / AllTuple / Join");
//   all inputs of one call have the same error type (when::CheckSameError).
#include <yaclib/async/join.hpp>
#include <yaclib/async/when_all.hpp>
#include <yaclib/async/when_any.hpp>
// the three headers above are the whole include list a user of the combinators needs
#include <yaclib/exe/manual.hpp>

#include "api_probe.hpp"
#include "api_probe_cb.hpp"

#include <array>
#include <deque>
#include <tuple>
#include <variant>
#include <vector>

#ifndef API_PROBE_SMOKE_ONLY
namespace probe {
namespace {

using yaclib::FailPolicy;
using yaclib::Future;
using yaclib::FutureOn;
using yaclib::Result;
using yaclib::SharedFuture;
using yaclib::SharedFutureOn;
using yaclib::StopError;

template <typename H>
H Src() {
  return Build<H>::Do();
}
template <typename H>
std::vector<H> Vec() {
  std::vector<H> v;
  v.push_back(Src<H>());
  v.push_back(Src<H>());
  return v;
}

template <typename V>
using Wrapped = yaclib::wrap_void_t<V>;

// ---- WhenAll -------------------------------------------------------------------------------------------------------------
// same value type: vector (or void for void inputs under FirstFail)
template <typename H, typename V, typename E>
void WhenAllSame() {
  auto a = yaclib::WhenAll(Src<H>());  // default policy: FirstFail
  auto b = yaclib::WhenAll(Src<H>(), Src<H>());
  auto c = yaclib::WhenAll<FailPolicy::FirstFail>(Src<H>(), Src<H>(), Src<H>());
  auto d = yaclib::WhenAll<FailPolicy::None>(Src<H>());
  auto e = yaclib::WhenAll<FailPolicy::None>(Src<H>(), Src<H>());
  using FirstFail = std::conditional_t<std::is_void_v<V>, void, std::vector<V>>;
  static_assert(std::is_same_v<decltype(b), Future<FirstFail, E>>);
  static_assert(std::is_same_v<decltype(e), Future<std::vector<Result<V, E>>, E>>);
  Sink(a, b, c, d, e);
  // iterator forms
  auto v = Vec<H>();
  auto f = yaclib::WhenAll(v.begin(), v.end());
  v = Vec<H>();
  auto g = yaclib::WhenAll(v.begin(), v.size());
  v = Vec<H>();
  auto h = yaclib::WhenAll<FailPolicy::None>(v.begin(), v.end());
  v = Vec<H>();
  auto i = yaclib::WhenAll<FailPolicy::None>(v.data(), v.size());
  v = Vec<H>();
  auto j = yaclib::WhenAll<FailPolicy::FirstFail>(v.data(), v.data() + v.size());
  static_assert(std::is_same_v<decltype(f), Future<FirstFail, E>> && std::is_same_v<decltype(g), Future<FirstFail, E>>);
  static_assert(std::is_same_v<decltype(h), Future<std::vector<Result<V, E>>, E>>);
  std::array<H, 2> arr{Src<H>(), Src<H>()};
  auto k = yaclib::WhenAll(arr.begin(), arr.end());
  std::deque<H> deq;
  deq.push_back(Src<H>());
  auto l = yaclib::WhenAll(deq.begin(), deq.end());
  Sink(f, g, h, i, j, k, l);
}

// different value types: tuple
template <typename E>
void WhenAllTuple() {
  auto a = yaclib::WhenAll(Src<Future<int, E>>(), Src<Future<std::string, E>>());
  static_assert(std::is_same_v<decltype(a), Future<std::tuple<int, std::string>, E>>);
  auto b = yaclib::WhenAll(Src<Future<int, E>>(), Src<Future<void, E>>(), Src<FutureOn<MoveOnly, E>>());
  static_assert(std::is_same_v<decltype(b), Future<std::tuple<int, yaclib::Unit, MoveOnly>, E>>);
  auto c = yaclib::WhenAll<FailPolicy::None>(Src<Future<int, E>>(), Src<Future<void, E>>(), Src<FutureOn<MoveOnly, E>>(), Src<Future<Pinned, E>>());
  static_assert(std::is_same_v<decltype(c), Future<std::tuple<Result<int, E>, Result<void, E>, Result<MoveOnly, E>, Result<Pinned, E>>, E>>);
  // shared and unique inputs together, repeated core types
  auto d = yaclib::WhenAll(Src<SharedFuture<int, E>>(), Src<Future<std::string, E>>(), Src<SharedFutureOn<int, E>>(), Src<Future<std::string, E>>(),
                           Src<SharedFuture<void, E>>());
  static_assert(std::is_same_v<decltype(d), Future<std::tuple<int, std::string, int, std::string, yaclib::Unit>, E>>);
  auto e = yaclib::WhenAll<FailPolicy::None>(Src<SharedFuture<int, E>>(), Src<Future<std::string, E>>(), Src<SharedFutureOn<NoDefault, E>>());
  Sink(a, b, c, d, e);
#ifdef API_PROBE_KNOWN_3
  // KNOWN_3 (b/limitation): under FirstFail the output tuple std::tuple<V...> is a default-constructed member of when::AllTuple
  // (`OutputValue _tuple;`), so a heterogeneous WhenAll over a value type without a default constructor does not compile
  // ("no matching function for call to 'std::tuple<int, probe::Pinned>::tuple()'"); FailPolicy::None (tuple of Results) is fine.
  // notes/api_probe.md #3.
  auto k3 = yaclib::WhenAll(Src<Future<int, E>>(), Src<Future<Pinned, E>>());
  Sink(k3);
#endif
}

// same value type, different handle kinds (unique and shared cores in one vector-producing call)
template <typename V, typename E>
void WhenAllMixedHandles() {
  auto a = yaclib::WhenAll(Src<Future<V, E>>(), Src<FutureOn<V, E>>());
  auto b = yaclib::WhenAll(Src<Future<V, E>>(), Src<SharedFuture<V, E>>(), Src<SharedFutureOn<V, E>>(), Src<FutureOn<V, E>>());
  auto c = yaclib::WhenAll<FailPolicy::None>(Src<SharedFuture<V, E>>(), Src<Future<V, E>>(), Src<SharedFuture<V, E>>());
  auto d = yaclib::WhenAll(Src<SharedFuture<V, E>>(), Src<SharedFutureOn<V, E>>());
  Sink(a, b, c, d);
}

// ---- WhenAny -------------------------------------------------------------------------------------------------------------
template <FailPolicy F, typename H, typename V, typename E>
void WhenAnySameF() {
  auto a = yaclib::WhenAny<F>(Src<H>());
  auto b = yaclib::WhenAny<F>(Src<H>(), Src<H>());
  auto c = yaclib::WhenAny<F>(Src<H>(), Src<H>(), Src<H>());
  static_assert(std::is_same_v<decltype(b), Future<V, E>>);
  auto v = Vec<H>();
  auto d = yaclib::WhenAny<F>(v.begin(), v.end());
  v = Vec<H>();
  auto e = yaclib::WhenAny<F>(v.begin(), v.size());
  v = Vec<H>();
  auto f = yaclib::WhenAny<F>(v.data(), v.size());
  static_assert(std::is_same_v<decltype(d), Future<V, E>> && std::is_same_v<decltype(e), Future<V, E>>);
  Sink(a, b, c, d, e, f);
}
template <typename H, typename V, typename E>
void WhenAnySame() {
  WhenAnySameF<FailPolicy::None, H, V, E>();
  WhenAnySameF<FailPolicy::FirstFail, H, V, E>();
  WhenAnySameF<FailPolicy::LastFail, H, V, E>();
  auto a = yaclib::WhenAny(Src<H>(), Src<H>());  // default policy: LastFail
  auto v = Vec<H>();
  auto b = yaclib::WhenAny(v.begin(), v.end());
  std::array<H, 2> arr{Src<H>(), Src<H>()};
  auto c = yaclib::WhenAny(arr.begin(), arr.size());
  Sink(a, b, c);
}

template <FailPolicy F, typename E>
void WhenAnyVariantF() {
  auto a = yaclib::WhenAny<F>(Src<Future<int, E>>(), Src<Future<std::string, E>>());
  static_assert(std::is_same_v<decltype(a), Future<std::variant<int, std::string>, E>>);
  auto b = yaclib::WhenAny<F>(Src<Future<int, E>>(), Src<FutureOn<MoveOnly, E>>(), Src<Future<int, E>>(), Src<Future<Pinned, E>>());
  static_assert(std::is_same_v<decltype(b), Future<std::variant<MoveOnly, int, Pinned>, E>>);
  auto c = yaclib::WhenAny<F>(Src<SharedFuture<int, E>>(), Src<Future<std::string, E>>(), Src<SharedFutureOn<int, E>>());
  auto d = yaclib::WhenAny<F>(Src<Future<int, E>>(), Src<SharedFuture<int, E>>());  // same value, mixed handles
  static_assert(std::is_same_v<decltype(d), Future<int, E>>);
  Sink(a, b, c, d);
#ifdef API_PROBE_KNOWN_4
  // KNOWN_4 (a): a heterogeneous WhenAny with a void input builds std::variant<void, ...> (when_any.hpp does not wrap void in Unit the
  // way when_all.hpp's ContainerElem / wrap_void_t does): "variant must have no void alternative" (static_assert of libstdc++).
  // notes/api_probe.md #4.
  auto k4 = yaclib::WhenAny<F>(Src<Future<void, E>>(), Src<Future<int, E>>());
  Sink(k4);
#endif
}

// ---- Join ----------------------------------------------------------------------------------------------------------------
template <typename H, typename E>
void JoinSame() {
  auto a = yaclib::Join(Src<H>());  // default policy: None
  auto b = yaclib::Join(Src<H>(), Src<H>());
  auto c = yaclib::Join<FailPolicy::FirstFail>(Src<H>(), Src<H>());
  auto d = yaclib::Join<FailPolicy::None>(Src<H>(), Src<H>(), Src<H>());
  static_assert(std::is_same_v<decltype(b), Future<void, E>> && std::is_same_v<decltype(c), Future<void, E>>);
  auto v = Vec<H>();
  auto e = yaclib::Join(v.begin(), v.end());
  v = Vec<H>();
  auto f = yaclib::Join(v.begin(), v.size());
  v = Vec<H>();
  auto g = yaclib::Join<FailPolicy::FirstFail>(v.begin(), v.end());
  v = Vec<H>();
  auto h = yaclib::Join<FailPolicy::FirstFail>(v.data(), v.size());
  static_assert(std::is_same_v<decltype(e), Future<void, E>> && std::is_same_v<decltype(h), Future<void, E>>);
  Sink(a, b, c, d, e, f, g, h);
}
template <typename E>
void JoinMixed() {
  auto a = yaclib::Join(Src<Future<int, E>>(), Src<Future<void, E>>(), Src<FutureOn<Pinned, E>>());
  auto b = yaclib::Join<FailPolicy::FirstFail>(Src<Future<int, E>>(), Src<SharedFuture<std::string, E>>(), Src<SharedFutureOn<int, E>>(),
                                               Src<Future<int, E>>());
  auto c = yaclib::Join(Src<SharedFuture<int, E>>(), Src<SharedFuture<int, E>>());
  auto d = yaclib::Join<FailPolicy::FirstFail>(Src<SharedFuture<void, E>>(), Src<Future<void, E>>());
  Sink(a, b, c, d);
}

// ---- the matrix --------------------------------------------------------------------------------------------------------------
template <typename V, typename E>
void UniqueForms() {
  WhenAllSame<Future<V, E>, V, E>();
  WhenAllSame<FutureOn<V, E>, V, E>();
  WhenAnySame<Future<V, E>, V, E>();
  WhenAnySame<FutureOn<V, E>, V, E>();
  JoinSame<Future<V, E>, E>();
  JoinSame<FutureOn<V, E>, E>();
}
template <typename V, typename E>
void SharedForms() {
  WhenAllSame<SharedFuture<V, E>, V, E>();
  WhenAllSame<SharedFutureOn<V, E>, V, E>();
  WhenAnySame<SharedFuture<V, E>, V, E>();
  WhenAnySame<SharedFutureOn<V, E>, V, E>();
  JoinSame<SharedFuture<V, E>, E>();
  JoinSame<SharedFutureOn<V, E>, E>();
  WhenAllMixedHandles<V, E>();
}
template <typename E>
void AllForms() {
  UniqueForms<void, E>();
  UniqueForms<int, E>();
  UniqueForms<std::string, E>();
  UniqueForms<MoveOnly, E>();
  UniqueForms<Pinned, E>();
  SharedForms<void, E>();
  SharedForms<int, E>();
  SharedForms<std::string, E>();
  SharedForms<NoDefault, E>();
  WhenAllTuple<E>();
  WhenAnyVariantF<FailPolicy::None, E>();
  WhenAnyVariantF<FailPolicy::FirstFail, E>();
  WhenAnyVariantF<FailPolicy::LastFail, E>();
  JoinMixed<E>();
}
template void AllForms<StopError>();
template void AllForms<UserError>();

}  // namespace
}  // namespace probe
#endif  // API_PROBE_SMOKE_ONLY

int api_probe_when(int argc) {
  (void)argc;
#ifndef API_PROBE_SMOKE_ONLY
  if (argc > 1000) {
    probe::AllForms<yaclib::StopError>();
  }
#endif
  // smoke
  yaclib::ManualExecutor manual;
  auto run = [&](int x) {
    return yaclib::Run(manual, [x] {
      return x;
    });
  };
  auto all = yaclib::WhenAll(run(1), run(2), run(3));
  auto tuple = yaclib::WhenAll(run(4), yaclib::MakeFuture(std::string{"s"}), yaclib::MakeFuture());
  auto any = yaclib::WhenAny(run(5), run(6));
  std::vector<yaclib::FutureOn<int>> fs;
  fs.push_back(run(7));
  fs.push_back(run(8));
  auto join = yaclib::Join(fs.begin(), fs.end());
  auto [sf, sp] = yaclib::MakeSharedContract<int>();
  auto mixed = yaclib::WhenAll<yaclib::FailPolicy::None>(sf, run(9), sf);
  std::move(sp).Set(10);
  while (manual.Drain() != 0) {
  }
  int sum = 0;
  for (int x : std::move(all).Get().Ok()) {
    sum += x;
  }
  sum += std::get<0>(std::move(tuple).Get().Ok());
  sum += std::move(any).Get().Ok();
  sum += static_cast<int>(std::move(join).Get().State());
  for (auto& r : std::move(mixed).Get().Ok()) {
    sum += std::move(r).Ok();
  }
  return sum == 6 + 4 + 5 + 0 + 29 ? 0 : 1;
}

#ifndef API_PROBE_NO_MAIN
int main(int argc, char**) {
  return api_probe_when(argc);
}
#endif
