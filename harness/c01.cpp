// C01 correspondence harness: one producer fiber, one consumer fiber, every consumer kind x producer kind,
// all schedules under a preemption bound (or random schedules).  Emits canonical traces for `ymdriver validate unique`
// and checks the property's monitors directly on the implementation.
#include <common/vx.hpp>

#include <yaclib/async/connect.hpp>
#include <yaclib/async/contract.hpp>
#include <yaclib/async/future.hpp>
#include <yaclib/async/promise.hpp>
#include <yaclib/async/wait.hpp>
#include <yaclib/exe/executor.hpp>

#include <stdexcept>

namespace {

struct Peek : yaclib::detail::BaseCore {
  static yaclib_std::atomic_uintptr_t& Word(yaclib::detail::BaseCore& c) { return c.*(&Peek::_callback); }
};

// executor that records the submission and runs the job at once
struct TraceExec final : yaclib::IExecutor {
  Type Tag() const noexcept final { return Type::Custom; }
  bool Alive() const noexcept final { return true; }
  void Submit(yaclib::Job& job) noexcept final {
    vx::Ev("submit");
    job.Call();
  }
};

std::string Show(const yaclib::Result<int>& r) {
  switch (r.State()) {
    case yaclib::ResultState::Value: return "val:" + std::to_string(std::as_const(r).Value());
    case yaclib::ResultState::Error: return "err";
    case yaclib::ResultState::Exception: return "exc";
    default: return "EMPTY";
  }
}

struct Scenario {
  std::string prod;              // set:val:42 | set:err | set:exc | drop
  std::vector<std::string> pre;  // ready | getc | wait
  std::string fin;               // attach_inline | attach_exec | drop | get_move | connect
  std::string impl;              // which API form realises `fin`
  std::string pform = "scope";   // how a dropped promise goes away: scope exit | move-assignment of an empty Promise over it
  std::string Header() const {
    std::string p = "-";
    if (!pre.empty()) {
      p.clear();
      for (auto& x : pre) p += (p.empty() ? "" : ",") + x;
    }
    return "unique prod=" + prod + " pre=" + p + " fin=" + fin + " impl=" + impl + (pform == "scope" ? "" : " pform=" + pform);
  }
};

struct Observed {
  int invoked = 0, forwarded = 0, got = 0;
  std::string invoke_val, forward_val, got_val;
  std::vector<std::pair<bool, bool>> ready;  // (reported, later confirmed by a successful read?) — reported only
  bool torn = false;
};

Observed gObs;

void RunScenario(const Scenario& sc) {
  gObs = Observed{};
  auto [f, p] = yaclib::MakeContract<int>();
  auto& ctx = *vx::gCtx;
  ctx.NameObj(&Peek::Word(*f.GetCore()), "w");
  ctx.NameValWord(0, "empty");
  ctx.NameValWord(~0ULL, "result");
  TraceExec exec;
  vx::Thread tp("p", [&, p = std::move(p)]() mutable {
    if (sc.prod == "set:val:42") {
      std::move(p).Set(42);
    } else if (sc.prod == "set:err") {
      std::move(p).Set(yaclib::StopTag{});
    } else if (sc.prod == "set:exc") {
      std::move(p).Set(std::make_exception_ptr(std::runtime_error{"x"}));
    } else if (sc.pform == "assign") {
      p = yaclib::Promise<int>{};  // the valid promise is dropped by move-assignment (the old core must still be released properly)
    } else {
      auto dropped = std::move(p);  // destroyed here while valid
    }
  });
  vx::Thread tc("c", [&, f = std::move(f)]() mutable {
    for (auto& op : sc.pre) {
      if (op == "ready") {
        bool b = f.Ready();
        vx::Ev(std::string("ready ") + (b ? "1" : "0"));
      } else if (op == "getc") {
        const auto* r = std::as_const(f).Get();
        vx::Ev("getc " + (r != nullptr ? Show(*r) : std::string("none")));
      } else if (op == "wait") {
        yaclib::Wait(f);
      }
    }
    auto cont = [](yaclib::Result<int>&& r) {
      ++gObs.invoked;
      gObs.invoke_val = Show(r);
      vx::Ev("invoke " + gObs.invoke_val);
    };
    if (sc.impl == "then_inline") {
      auto f2 = std::move(f).ThenInline(cont);
    } else if (sc.impl == "detach_inline") {
      std::move(f).DetachInline(cont);
    } else if (sc.impl == "then_exec") {
      auto f2 = std::move(f).Then(exec, cont);
    } else if (sc.impl == "detach_exec") {
      std::move(f).Detach(exec, cont);
    } else if (sc.impl == "dtor") {
      auto dropped = std::move(f);
    } else if (sc.impl == "assign") {
      f = yaclib::Future<int>{};  // the valid future is dropped by move-assignment
    } else if (sc.impl == "detach") {
      std::move(f).Detach();
    } else if (sc.impl == "get_move") {
      auto r = std::move(f).Get();
      ++gObs.got;
      gObs.got_val = Show(r);
      vx::Ev("got " + gObs.got_val);
    } else if (sc.impl == "connect") {
      auto [f2, p2] = yaclib::MakeContract<int>();
      std::move(f2).DetachInline([](yaclib::Result<int>&& r) {
        ++gObs.forwarded;
        gObs.forward_val = Show(r);
        vx::Ev("forward " + gObs.forward_val);
      });
      yaclib::Connect(std::move(f), std::move(p2));
    }
  });
  tp.join();
  tc.join();
}

std::string Expected(const Scenario& sc) {
  if (sc.prod == "set:val:42") return "val:42";
  if (sc.prod == "set:exc") return "exc";
  return "err";
}

std::string Monitor(const Scenario& sc, bool done) {
  if (!done) return "";
  const std::string want = Expected(sc);
  if (sc.fin == "attach_inline" || sc.fin == "attach_exec") {
    if (gObs.invoked != 1) return "continuation invoked " + std::to_string(gObs.invoked) + " times";
    if (gObs.invoke_val != want) return "continuation saw " + gObs.invoke_val + " instead of " + want;
  } else {
    if (gObs.invoked != 0) return "a continuation ran although none was attached";
  }
  if (sc.fin == "get_move") {
    if (gObs.got != 1 || gObs.got_val != want) return "Get returned " + gObs.got_val + " instead of " + want;
  }
  if (sc.fin == "connect") {
    if (gObs.forwarded != 1 || gObs.forward_val != want) return "Connect forwarded " + std::to_string(gObs.forwarded) + " times: " + gObs.forward_val;
  }
  // Ready()/Get() const& observations: a `ready 1` must never be followed by `getc none`, values must match
  bool seen_ready = false;
  for (auto& l : vx::gCtx->trace) {
    if (l.rfind("c E ready 1", 0) == 0) seen_ready = true;
    if (l.rfind("c E ready 0", 0) == 0 && seen_ready) return "Ready() went back to false";
    if (l.rfind("c E getc ", 0) == 0) {
      std::string v = l.substr(9);
      if (v == "none") {
        if (seen_ready) return "Get() const& returned nullptr after Ready() was true";
      } else {
        if (v != want) return "Get() const& read " + v + " instead of " + want;
        seen_ready = true;
      }
    }
  }
  return "";
}

std::vector<Scenario> AllScenarios(bool big) {
  std::vector<Scenario> out;
  const char* prods[] = {"set:val:42", "set:err", "set:exc", "drop"};
  struct F { const char* fin; const char* impl; };
  const F fins[] = {{"attach_inline", "then_inline"}, {"attach_inline", "detach_inline"}, {"attach_exec", "then_exec"},
                    {"attach_exec", "detach_exec"},   {"drop", "dtor"},                  {"drop", "detach"},
                    {"drop", "assign"},
                    {"get_move", "get_move"},         {"connect", "connect"}};
  std::vector<std::vector<std::string>> pres = {{}, {"ready"}, {"getc"}, {"wait"}, {"ready", "getc", "ready"},
                                                {"wait", "ready", "getc"}, {"getc", "wait", "getc"}};
  if (big) {  // every list of up to three non-consuming operations
    pres.clear();
    const char* ops[] = {"ready", "getc", "wait"};
    pres.push_back({});
    for (auto* a : ops) {
      pres.push_back({a});
      for (auto* b : ops) {
        pres.push_back({a, b});
        for (auto* c : ops) pres.push_back({a, b, c});
      }
    }
  }
  for (auto* p : prods)
    for (auto& f : fins)
      for (auto& pre : pres) {
        out.push_back(Scenario{p, pre, f.fin, f.impl});
        if (std::string(p) == "drop") out.push_back(Scenario{p, pre, f.fin, f.impl, "assign"});
      }
  return out;
}

}  // namespace

int main(int argc, char** argv) {
  auto opt = vx::ParseOptions(argc, argv);
  bool big = false;
  for (int i = 1; i < argc; ++i) big = big || std::string(argv[i]) == "--big";
  if (!opt.only.empty()) big = true;  // a replay may come from either tier
  vx::Explorer ex(opt);
  for (auto& sc : AllScenarios(big)) {
    ex.Run(sc.Header(), [&] { RunScenario(sc); }, [&](bool done) { return Monitor(sc, done); });
  }
  ex.Report();
  return ex.stats.violations == 0 ? 0 : 1;
}
