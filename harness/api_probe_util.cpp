// API instantiation sweep, area `util`: fwd.hpp, util/{result,intrusive_ptr,helper,cast,ref,func,type_traits,fail_policy,
// combinator_strategy}.hpp, log.hpp.  C++17-clean (also compiled with -std=c++17 against a library without coroutines).
// util/cast.hpp is deliberately the FIRST yaclib include: DownCast (probe::Casts below) uses YACLIB_ASSERT, and the header did not
// include <yaclib/log.hpp> before /repo b3ff916, so a TU that starts with it could not instantiate DownCast (notes/api_probe.md #1).
#include <yaclib/util/cast.hpp>
// (no other yaclib header may be moved above this line)
#include <yaclib/log.hpp>
#include <yaclib/fwd.hpp>
#include <yaclib/util/combinator_strategy.hpp>
#include <yaclib/util/fail_policy.hpp>
#include <yaclib/util/func.hpp>
#include <yaclib/util/helper.hpp>
#include <yaclib/util/intrusive_ptr.hpp>
#include <yaclib/util/ref.hpp>
#include <yaclib/util/result.hpp>
#include <yaclib/util/type_traits.hpp>

#include "api_probe.hpp"

#include <tuple>
#include <variant>
#include <vector>

namespace probe {
namespace {

// ---- fwd.hpp: Unit / StopTag / StopError comparisons ---------------------------------------------------------------
template <typename T>
void VoidCompare(T a, T b) {
  Sink(a == b, a != b, a < b, a <= b, a >= b, a > b);
}
template void VoidCompare(yaclib::Unit, yaclib::Unit);
template void VoidCompare(yaclib::StopTag, yaclib::StopTag);
template void VoidCompare(yaclib::StopError, yaclib::StopError);

// ---- util/result.hpp -----------------------------------------------------------------------------------------------
template <typename V, typename E>
void ResultMembers() {
  using R = yaclib::Result<V, E>;
  using Stored = std::conditional_t<std::is_void_v<V>, yaclib::Unit, V>;
  R empty;                                            // Result()
  R stop{yaclib::StopTag{}};                          // Result(StopTag)
  R err{E{yaclib::StopTag{}}};                        // Result(E)
  R exc{std::make_exception_ptr(yaclib::ResultEmpty{})};  // Result(std::exception_ptr)
  auto value = [] {
    if constexpr (std::is_void_v<V>) {
      return R{std::in_place};  // Result(in_place_t)
    } else {
      return R{Make<V>()};  // Result(Args&&...)
    }
  };
  R val = value();
  R moved{std::move(val)};  // Result(Result&&)
  val = value();            // operator=(Result&&)
  if constexpr (std::is_copy_constructible_v<Stored>) {
    R copy{std::as_const(moved)};  // Result(const Result&)
    copy = std::as_const(moved);   // operator=(const Result&)
    Sink(copy);
  }
  // operator=(Arg&&): every alternative of the variant
  val = yaclib::StopTag{};
  val = E{yaclib::StopTag{}};
  val = std::make_exception_ptr(yaclib::ResultEmpty{});
  if constexpr (std::is_void_v<V>) {
    val = yaclib::Unit{};
  } else {
    val = Make<V>();
  }
  Sink(static_cast<bool>(val), val.State());
  const R& cref = moved;
  const Stored& ok_c = cref.Ok();
  const Stored& value_c = cref.Value();
  const std::exception_ptr& exc_c = std::as_const(exc).Exception();
  const E& err_c = std::as_const(err).Error();
  Sink(ok_c, value_c, exc_c, err_c, cref.Internal(), moved.Internal());
  Stored&& ok_r = std::move(moved).Ok();
  Sink(ok_r);
  moved = value();
  Stored&& value_r = std::move(moved).Value();
  Sink(value_r);
  std::exception_ptr&& exc_r = std::move(exc).Exception();
  E&& err_r = std::move(err).Error();
  Sink(exc_r, err_r);
  try {
    Sink(std::as_const(stop).Ok());  // throws ResultError<E>: instantiates ResultError<E>::what -> E::What()
  } catch (const yaclib::ResultError<E>& e) {
    yaclib::ResultError<E> copy{e};
    yaclib::ResultError<E> from_lvalue{std::as_const(copy).Get()};
    yaclib::ResultError<E> from_rvalue{E{yaclib::StopTag{}}};
    from_lvalue = copy;
    from_rvalue = std::move(copy);
    Sink(e.what(), from_lvalue.Get(), std::as_const(from_rvalue).Get());
  }
  try {
    Sink(std::as_const(empty).Ok());
  } catch (const yaclib::ResultEmpty& e) {
    Sink(e.what());
  }
  static_assert(yaclib::is_result_v<R>);
  static_assert(std::is_same_v<yaclib::result_value_t<R>, V>);
  static_assert(std::is_same_v<yaclib::result_error_t<R>, E>);
}

template <typename E>
void ResultMembersAllV() {
  ResultMembers<void, E>();
  ResultMembers<int, E>();
  ResultMembers<std::string, E>();
  ResultMembers<MoveOnly, E>();
  ResultMembers<Pinned, E>();
  ResultMembers<NoDefault, E>();
}
template void ResultMembersAllV<yaclib::StopError>();
template void ResultMembersAllV<UserError>();

// in-place construction of an immovable value, multi-argument construction
void ResultInPlace() {
  yaclib::Result<Immovable> r{std::in_place, 3};
  yaclib::Result<Immovable> r1{3};
  yaclib::Result<std::string> s{std::size_t{3}, 'x'};
  yaclib::Result<std::string> s1{std::in_place, std::size_t{3}, 'x'};
  yaclib::Result<std::vector<int>> v{std::in_place};
  yaclib::Result<> def{std::in_place};
  Sink(r.State(), r1.State(), s.State(), s1.State(), v.State(), def.State(), std::as_const(r).Value().x, std::as_const(r1).Ok().x);
}

// the accessors the library deletes on purpose (result.hpp: `void Ok() & = delete;` ...): documented, not a defect
template <typename R, typename = void>
struct CanOkLvalue : std::false_type {};
template <typename R>
struct CanOkLvalue<R, std::void_t<decltype(std::declval<R&>().Ok())>> : std::true_type {};
template <typename R, typename = void>
struct CanValueConstRvalue : std::false_type {};
template <typename R>
struct CanValueConstRvalue<R, std::void_t<decltype(std::declval<const R&&>().Value())>> : std::true_type {};
static_assert(!CanOkLvalue<yaclib::Result<int>>::value, "API_PROBE_DELETED: Result::Ok() & is deleted");
static_assert(!CanValueConstRvalue<yaclib::Result<int>>::value, "API_PROBE_DELETED: Result::Value() const&& is deleted");
static_assert(CanOkLvalue<const yaclib::Result<int>>::value);

// ---- util/ref.hpp, util/func.hpp, util/intrusive_ptr.hpp, util/helper.hpp -------------------------------------------
struct Base : yaclib::IRef {
  int b = 0;
};
struct Derived : Base {
  explicit Derived(int v = 0) : d{v} {
  }
  int d;
};
struct Func : yaclib::IFunc {
  void Call() noexcept override {
  }
};

void IntrusivePtrMembers() {
  using yaclib::IntrusivePtr;
  auto unique = yaclib::MakeUnique<Derived>(1);   // IntrusivePtr<Helper<OneCounter, Derived>>
  auto shared = yaclib::MakeShared<Derived>(1, 2);  // IntrusivePtr<Helper<AtomicCounter, Derived>>
  auto func = yaclib::MakeShared<Func>(1);
  func->Call();
  Sink(unique->d, (*shared).d, shared->GetRef(), unique->GetRef());
  IntrusivePtr<Derived> d0;                          // IntrusivePtr()
  IntrusivePtr<Derived> d1{shared.Get()};            // IntrusivePtr(T*)
  IntrusivePtr<Derived> d2{d1};                      // copy
  IntrusivePtr<Derived> d3{std::move(d2)};           // move
  IntrusivePtr<Base> b1{d1};                         // IntrusivePtr(const IntrusivePtr<U>&)
  IntrusivePtr<Base> b2{IntrusivePtr<Derived>{d1}};  // IntrusivePtr(IntrusivePtr<U>&&)
  IntrusivePtr<Base> b3{shared};                     // from the Helper type
  d0 = d1;                                           // operator=(const&)
  d0 = std::move(d3);                                // operator=(&&)
  d0 = shared.Get();                                 // operator=(T*)
  b1 = d1;                                           // operator=(const IntrusivePtr<U>&)
  b1 = IntrusivePtr<Derived>{d1};                    // operator=(IntrusivePtr<U>&&)
  d0.Swap(d1);
  shared->IncRef();
  IntrusivePtr<Derived> adopted{yaclib::NoRefTag{}, shared.Get()};  // IntrusivePtr(NoRefTag, T*)
  Derived* released = adopted.Release();
  adopted.Reset(yaclib::NoRefTag{}, released);  // Reset(NoRefTag, T*)
  Sink(static_cast<bool>(d0), d0.Get(), &*d0, d0->d);
  Sink(d0 == d1, d0 != d1, d0 == b1, d0 != b1, d0 == released, d0 != released, released == d0, released != d0, d0 == nullptr,
       nullptr == d0, d0 != nullptr, nullptr != d0, d0 < d1);
  static_assert(std::is_same_v<IntrusivePtr<Derived>::Value, Derived>);
}

// ---- util/cast.hpp ---------------------------------------------------------------------------------------------------
void Casts() {
  Derived d;
  const Derived cd;
  Base& b = yaclib::UpCast<Base>(d);
  const Base& cb = yaclib::UpCast<Base>(cd);
  Base* pb = yaclib::UpCast<Base>(&d);
  const Base* pcb = yaclib::UpCast<Base>(&cd);
  Derived& rd = yaclib::DownCast<Derived>(b);
  const Derived& rcd = yaclib::DownCast<Derived>(cb);
  Derived* pd = yaclib::DownCast<Derived>(pb);
  const Derived* pcd = yaclib::DownCast<Derived>(pcb);
  Sink(rd, rcd, pd, pcd);
}

// ---- util/type_traits.hpp ---------------------------------------------------------------------------------------------
struct Callable {
  int operator()(int) const {
    return 0;
  }
  void operator()() const {
  }
};
static_assert(std::is_same_v<yaclib::remove_cvref_t<const int&>, int>);
static_assert(std::is_same_v<yaclib::head_t<int, char>, int>);
static_assert(yaclib::is_invocable_v<Callable, int> && yaclib::is_invocable_v<Callable, void> && yaclib::is_invocable_v<Callable>);
static_assert(std::is_same_v<yaclib::invoke_t<Callable, int>, int> && std::is_void_v<yaclib::invoke_t<Callable, void>>);
static_assert(!yaclib::is_result_v<int> && std::is_same_v<yaclib::result_value_t<int>, int>);
static_assert(std::is_same_v<yaclib::task_value_t<yaclib::Task<int, UserError>>, int>);
static_assert(std::is_same_v<yaclib::task_error_t<yaclib::Task<int, UserError>>, UserError>);
static_assert(yaclib::is_future_base_v<yaclib::Future<int>> && yaclib::is_future_base_v<yaclib::FutureOn<int>> &&
              yaclib::is_future_base_v<yaclib::FutureBase<int, yaclib::StopError>> && !yaclib::is_future_base_v<yaclib::SharedFuture<int>>);
static_assert(yaclib::is_shared_future_base_v<yaclib::SharedFuture<int>> && yaclib::is_shared_future_base_v<yaclib::SharedFutureOn<int>> &&
              yaclib::is_shared_future_base_v<yaclib::SharedFutureBase<int, yaclib::StopError>>);
static_assert(yaclib::is_task_v<yaclib::Task<>> && !yaclib::is_task_v<yaclib::Future<>>);
static_assert(yaclib::is_waitable_v<yaclib::Future<>&> && !yaclib::is_waitable_v<const yaclib::Future<>&> &&
              yaclib::is_waitable_v<const yaclib::SharedFuture<>&>);
static_assert(yaclib::is_waitable_with_timeout_v<yaclib::FutureOn<>&> && !yaclib::is_waitable_with_timeout_v<yaclib::SharedFuture<>&>);
static_assert(yaclib::is_combinator_input_v<yaclib::Future<>> && yaclib::is_combinator_input_v<yaclib::SharedFutureOn<>> &&
              !yaclib::is_combinator_input_v<yaclib::Task<>>);
static_assert(std::is_same_v<yaclib::async_value_t<yaclib::FutureOn<int, UserError>>, int>);
static_assert(std::is_same_v<yaclib::async_error_t<yaclib::SharedFuture<int, UserError>>, UserError>);
static_assert(yaclib::kCount<int, int, char, int> == 2 && yaclib::kContains<int, char, int> && !yaclib::kContains<int, char>);
static_assert(std::is_same_v<yaclib::Prepend<int, std::tuple<char>>::Type, std::tuple<int, char>>);
static_assert(std::is_same_v<yaclib::tail_t<std::tuple<int, char>>, std::tuple<char>>);
template <typename T>
struct IsInt {
  static constexpr bool Value = std::is_same_v<T, int>;
};
static_assert(std::is_same_v<yaclib::Filter<IsInt, std::tuple<int, char, int>>::Type, std::tuple<int, int>>);
static_assert(std::is_same_v<yaclib::Filter<IsInt, std::tuple<>>::Type, std::tuple<>>);
static_assert(std::is_same_v<yaclib::Unique<std::tuple<int, char, int>>::Type, std::tuple<char, int>>);
static_assert(std::is_same_v<yaclib::Variant<std::tuple<int, char>>::Type, std::variant<int, char>>);
static_assert(std::is_same_v<yaclib::MaybeVariant<std::tuple<int>>::Type, int>);
static_assert(std::is_same_v<yaclib::MaybeVariant<std::tuple<int, char>>::Type, std::variant<int, char>>);
static_assert(std::is_same_v<yaclib::wrap_void_t<void>, yaclib::Unit> && std::is_same_v<yaclib::wrap_void_t<int>, int>);
static_assert(yaclib::translate_index_v<2, std::tuple<int, char, int>, std::tuple<int, int>> == 1);
static_assert(yaclib::index_of_v<char, std::tuple<int, char>> == 1);
static_assert(yaclib::Check<int>() && yaclib::Check<void>() && yaclib::Check<Pinned>());

void MoveIf() {
  int x = 0;
  static_assert(std::is_same_v<decltype(yaclib::move_if<true>(x)), int&&>);
  static_assert(std::is_same_v<decltype(yaclib::move_if<false>(x)), int&>);
  Sink(yaclib::move_if<true>(x), yaclib::move_if<false>(x));
}

// ---- util/fail_policy.hpp, util/combinator_strategy.hpp: every enumerator -------------------------------------------
void Enums() {
  Sink(yaclib::FailPolicy::None, yaclib::FailPolicy::FirstFail, yaclib::FailPolicy::LastFail);
  Sink(yaclib::ConsumePolicy::None, yaclib::ConsumePolicy::Unordered, yaclib::ConsumePolicy::Static, yaclib::ConsumePolicy::Dynamic);
  Sink(yaclib::CorePolicy::Owned, yaclib::CorePolicy::Managed);
  Sink(yaclib::ResultState::Value, yaclib::ResultState::Exception, yaclib::ResultState::Error, yaclib::ResultState::Empty);
}

// ---- log.hpp ---------------------------------------------------------------------------------------------------------
void Log() {
  yaclib::LogCallback cb = [](std::string_view, std::size_t, std::string_view, std::string_view, std::string_view) noexcept {
  };
  YACLIB_INIT_DEBUG(cb);
  YACLIB_INIT_WARN(cb);
  YACLIB_DEBUG(false, "message");
  YACLIB_WARN(false, "message");
  YACLIB_ASSERT(true);
  YACLIB_INIT_DEBUG(nullptr);
  YACLIB_INIT_WARN(nullptr);
}

}  // namespace
}  // namespace probe

int api_probe_util(int argc) {
  if (argc > 1000) {
    probe::ResultInPlace();
    probe::MoveIf();
    probe::Enums();
  }
  // smoke
  probe::Casts();  // DownCast / UpCast with cast.hpp as the first include (#1, /repo b3ff916)
  probe::IntrusivePtrMembers();
  probe::ResultMembersAllV<probe::UserError>();
  probe::Log();
  yaclib::Result<int> r{41};
  return std::move(r).Ok() == 41 ? 0 : 1;
}

#ifndef API_PROBE_NO_MAIN
int main(int argc, char**) {
  return api_probe_util(argc);
}
#endif
