// C17 harness: fiber fault-injection runs are reproducible from their seed.
//
// The library's OWN pseudo-random generator drives every run: only the *trace* hooks of yaclib/fault/verif.hpp are
// installed (on_resume, on_atomic, on_sync); the choice hooks stay null, except in the `pure` mode where `rand` is
// installed as a pure observer (always answers "use the built-in behaviour") to count draws.
//
//   c17 batch [--dump DIR [--dump-only KEY]] [--pre-malloc N]      reads configurations from stdin, one per line:
//         run   <key> prog=P size=N seed=S freq=F pick=K afail=A sleep=T tick=L passes=2 reset=seed+state|seed|none
//               [quarantine=0|1]   (1, the default: no address is reused within a run, see "address quarantine")
//               [apply=0]   do not re-apply the fault configuration (an earlier line of the process applied it): only
//                           SetSeed + SetInjectorState precede the run
//               [frag=<bits>]   bit p: FragmentHeap() before pass p (fiber objects then are not allocated in ascending order)
//               rec only: [warm=1] draw numbers before SetSeed; [ckextra=k] k extra injection points before the checkpoint
//         rec   <key> prog=P2 …                  two-phase program, prints the checkpoint pair and the phase-2 digest
//         rep   <key> prog=P2 … count=C state=Z  fresh start + SetSeed/ForwardToFaultRandomCount/SetInjectorState,
//                                                then phase 2 only
//       prints per run one line `digest <key> pass=<i> hash=… lines=… resumes=… injected=… rand=… spurious=… casfail=…
//       events=<hash> result=…` (and `ckpt <key> count=… state=…` for rec).  With --dump the full trace of every
//       pass is written to DIR/<key>.<pass>.txt (used by the check to show the first differing line).
//   c17 sched [--seed S] [--count N]              random scheduler-level scripts, logged request by request, for the
//                                                 differential of the whole scheduler model (`Sched.step`)
//   c17 pure                                      prints raw decision inputs/outputs of the real decision functions
//                                                 (BiList::GetElement, PollRandomElementFromList, Injector incl. state ==
//                                                 frequency and the SetInjectorState round trip, GetRandNumber with
//                                                 max = 1 mixed in, weak CAS, ForwardToFaultRandomCount, restore after
//                                                 draws before SetSeed) for the differential against the Lean model
//
// Fiber ids in traces are relative to the id of the run's root fiber (ids are handed out by a process-global counter
// that is never reset); neither addresses nor pointer-valued words reach the trace (not even as first-appearance
// names: whether two objects with disjoint lifetimes share an address depends on the heap layout).
#ifndef YACLIB_VERIF
#  error "build with -DYACLIB_VERIF"
#endif

#include <fault/util.hpp>

#include <yaclib/async/contract.hpp>
#include <yaclib/async/future.hpp>
#include <yaclib/async/run.hpp>
#include <yaclib/async/wait.hpp>
#include <yaclib/async/wait_for.hpp>
#include <yaclib/async/when_all.hpp>
#include <yaclib/coro/await.hpp>
#include <yaclib/coro/future.hpp>
#include <yaclib/coro/on.hpp>
#include <yaclib/exe/strand.hpp>
#include <yaclib/exe/submit.hpp>
#include <yaclib/fault/config.hpp>
#include <yaclib/fault/detail/atomic.hpp>
#include <yaclib/fault/detail/fiber/bidirectional_intrusive_list.hpp>
#include <yaclib/fault/detail/fiber/fiber.hpp>
#include <yaclib/fault/detail/fiber/queue.hpp>
#include <yaclib/fault/detail/fiber/scheduler.hpp>
#include <yaclib/fault/inject.hpp>
#include <yaclib/fault/injector.hpp>
#include <yaclib/fault/verif.hpp>
#include <yaclib/runtime/fair_thread_pool.hpp>

#include <chrono>
#include <cstdint>
#include <cstdio>
#include <cstdlib>
#include <cstring>
#include <functional>
#include <iostream>
#include <map>
#include <memory>
#include <new>
#include <random>
#include <sstream>
#include <string>
#include <unordered_map>
#include <vector>
#include <yaclib_std/atomic>
#include <yaclib_std/condition_variable>
#include <yaclib_std/mutex>
#include <yaclib_std/thread>

namespace yaclib::detail {
bool ShouldFailAtomicWeak();  // src/fault/atomic.cpp
}

// ---- address quarantine -------------------------------------------------------------------------------------------
// Whether a *stale* CAS on a pointer-valued atomic succeeds depends on whether the allocator handed a freed address out
// again (ABA by address reuse; observed in yaclib::Strand::Submit, see notes/C17.md).  That makes a run depend on the
// allocator's free lists, i.e. on everything the process allocated before.  With the quarantine on, blocks freed
// during a run are not returned to the allocator until the run is over, so no address is reused within a run and
// the comparison isolates the fault layer (and the rest of the library) from the allocator.  `quarantine=0` in a
// configuration line turns it off (the check uses that to exhibit the allocator dependence).
namespace {
bool gQuarantine = false;
void* gQuarantined = nullptr;
std::uint64_t gQuarantinedBlocks = 0;

void QuarantineFlush() {
  while (gQuarantined != nullptr) {
    void* next = *static_cast<void**>(gQuarantined);
    std::free(gQuarantined);
    gQuarantined = next;
  }
}
void Release(void* p) noexcept {
  if (p == nullptr) return;
  if (gQuarantine) {
    *static_cast<void**>(p) = gQuarantined;  // every block is at least one pointer wide (see operator new below)
    gQuarantined = p;
    ++gQuarantinedBlocks;
  } else {
    std::free(p);
  }
}
}  // namespace

void* operator new(std::size_t n) {
  void* p = std::malloc(n < sizeof(void*) ? sizeof(void*) : n);
  if (p == nullptr) throw std::bad_alloc{};
  return p;
}
void* operator new[](std::size_t n) { return operator new(n); }
void* operator new(std::size_t n, std::align_val_t a) {
  std::size_t al = static_cast<std::size_t>(a);
  std::size_t sz = (n < sizeof(void*) ? sizeof(void*) : n);
  void* p = std::aligned_alloc(al, (sz + al - 1) / al * al);
  if (p == nullptr) throw std::bad_alloc{};
  return p;
}
void* operator new[](std::size_t n, std::align_val_t a) { return operator new(n, a); }
void operator delete(void* p) noexcept { Release(p); }
void operator delete[](void* p) noexcept { Release(p); }
void operator delete(void* p, std::size_t) noexcept { Release(p); }
void operator delete[](void* p, std::size_t) noexcept { Release(p); }
void operator delete(void* p, std::align_val_t) noexcept { Release(p); }
void operator delete[](void* p, std::align_val_t) noexcept { Release(p); }
void operator delete(void* p, std::size_t, std::align_val_t) noexcept { Release(p); }
void operator delete[](void* p, std::size_t, std::align_val_t) noexcept { Release(p); }

namespace {

using Ns = std::chrono::nanoseconds;

struct Hash {
  std::uint64_t h = 1469598103934665603ULL;
  void Add(const char* s, std::size_t n) {
    for (std::size_t i = 0; i < n; ++i) {
      h ^= static_cast<unsigned char>(s[i]);
      h *= 1099511628211ULL;
    }
    h ^= 0xff;
    h *= 1099511628211ULL;
  }
};

struct Rec {
  Hash trace;
  Hash events;
  std::uint64_t lines = 0, resumes = 0, atomics = 0, syncs = 0, spurious = 0, casfail = 0, nevents = 0;
  bool have_root = false;
  std::uint64_t root = 0;  // id of the run's root fiber: printed as 0
  std::uint64_t base = 0;  // every other fiber id is printed relative to this one (= root, or the checkpoint's probe)
  FILE* dump = nullptr;
  bool on = true;

  void Line(const char* buf, int n) {
    if (!on) return;
    trace.Add(buf, static_cast<std::size_t>(n));
    ++lines;
    if (dump != nullptr) {
      std::fwrite(buf, 1, static_cast<std::size_t>(n), dump);
      std::fputc('\n', dump);
    }
  }
  long long Rel(unsigned long long id) const {
    return id == root ? 0 : static_cast<long long>(id) - static_cast<long long>(base);
  }
  void Reset() {  // start a new trace segment (restore experiment)
    trace = Hash{};
    events = Hash{};
    lines = resumes = atomics = syncs = spurious = casfail = nevents = 0;
  }
};

Rec* gRec = nullptr;
bool gDebugValues = false;  // C17_DEBUG_VALUES=1: raw words next to the dumped trace lines (diagnosis only)

long long Self() {
  return gRec->Rel(yaclib::fault::Scheduler::GetId());
}

void Ev(const std::string& s) {
  char buf[256];
  int n = std::snprintf(buf, sizeof buf, "E %lld %s", Self(), s.c_str());
  if (!gRec->on) return;
  gRec->events.Add(buf, static_cast<std::size_t>(n));
  ++gRec->nevents;
  gRec->Line(buf, n);
}

void InstallTraceHooks() {
  auto& h = yaclib::verif::gHooks;
  h = yaclib::verif::Hooks{};
  h.on_resume = [](void*, unsigned long long id) {
    auto& r = *gRec;
    if (!r.have_root) {
      r.have_root = true;
      r.root = id;
      r.base = id;
    }
    ++r.resumes;
    char buf[64];
    int n = std::snprintf(buf, sizeof buf, "R %lld", r.Rel(id));
    r.Line(buf, n);
  };
  h.on_atomic = [](void*, const void* obj, int op, int os, int of, unsigned long long arg, unsigned long long expected,
                   unsigned long long result, int ok) {
    auto& r = *gRec;
    ++r.atomics;
    // an injected spurious failure never reaches the implementation's compare_exchange_weak: the wrapper
    // (yaclib::detail::Atomic) answers it with a `load`, which is what the trace shows; the client programs count
    // them (a failed weak CAS that found the expected value)
    if ((op == yaclib::verif::kCasWeak || op == yaclib::verif::kCasStrong) && ok == 0) ++r.casfail;
    char buf[96];
    // no object names: two objects whose lifetimes do not overlap may or may not share an address, depending on the
    // allocator's reuse pattern (heap layout), so any name derived from the address would be layout dependent
    int n = std::snprintf(buf, sizeof buf, "A %lld %d %d.%d %d", Self(), op, os, of, ok);
    r.Line(buf, n);
    if (r.dump != nullptr && r.on && gDebugValues) {  // diagnosis only: raw words, never hashed
      std::fprintf(r.dump, "#   obj=%p arg=%llx expected=%llx result=%llx\n", obj, arg, expected, result);
    }
  };
  h.on_sync = [](void*, const void* obj, int op, int res) {
    auto& r = *gRec;
    ++r.syncs;
    char buf[96];
    (void)obj;
    int n = std::snprintf(buf, sizeof buf, "S %lld %d %d", Self(), op, res);
    r.Line(buf, n);
  };
}

// ------------------------------------------------------------------------------------------------ client programs
struct Env {
  int size = 2;
  std::string result;
};

// contended weak-CAS increments from plain yaclib_std::threads
void ProgCas(Env& env) {
  yaclib_std::atomic<int> word{0};
  const int threads = 3;
  const int per = 3 * env.size;
  std::vector<int> retries(threads, 0);
  std::vector<yaclib_std::thread> ts;
  for (int t = 0; t < threads; ++t) {
    ts.emplace_back([&, t] {
      for (int i = 0; i < per; ++i) {
        int cur = word.load(std::memory_order_relaxed);
        int before = cur;
        while (!word.compare_exchange_weak(cur, cur + 1, std::memory_order_acq_rel, std::memory_order_relaxed)) {
          ++retries[static_cast<std::size_t>(t)];
          if (cur == before && gRec->on) ++gRec->spurious;  // the word only grows: same value = injected failure
          before = cur;
        }
        if (i % 3 == 2) Ev("cas t" + std::to_string(t) + " i" + std::to_string(i) + " saw " + std::to_string(cur));
      }
    });
  }
  for (auto& t : ts) t.join();
  std::string r = "word=" + std::to_string(word.load());
  for (int t = 0; t < threads; ++t) r += " r" + std::to_string(t) + "=" + std::to_string(retries[static_cast<std::size_t>(t)]);
  Ev(r);
  env.result += r + ";";
}

// FairThreadPool: jobs, continuations, Wait, Stop
void ProgPool(Env& env) {
  auto tp = yaclib::MakeFairThreadPool(3);
  yaclib_std::atomic<int> sum{0};
  std::vector<yaclib::FutureOn<int>> fs;
  const int n = 4 * env.size;
  for (int i = 0; i < n; ++i) {
    fs.push_back(yaclib::Run(*tp,
                             [&sum, i] {
                               int before = sum.fetch_add(i + 1, std::memory_order_acq_rel);
                               Ev("job " + std::to_string(i) + " before=" + std::to_string(before));
                               return i;
                             })
                   .Then([i](int x) {
                     Ev("then " + std::to_string(i));
                     return x * 2;
                   }));
  }
  yaclib::Wait(fs.begin(), fs.end());
  long total = 0;
  for (auto& f : fs) total += std::move(f).Get().Ok();
  tp->Stop();
  tp->Wait();
  std::string r = "pool total=" + std::to_string(total) + " sum=" + std::to_string(sum.load());
  Ev(r);
  env.result += r + ";";
}

// two strands over a pool, three submitter threads: the order in which the critical sections ran is client visible
void ProgStrand(Env& env) {
  auto tp = yaclib::MakeFairThreadPool(2);
  auto s0 = yaclib::MakeStrand(tp);
  auto s1 = yaclib::MakeStrand(tp);
  yaclib_std::atomic<int> done{0};
  std::string order0, order1;  // protected by the strands
  const int per = 2 * env.size;
  std::vector<yaclib_std::thread> subs;
  for (int k = 0; k < 3; ++k) {
    subs.emplace_back([&, k] {
      for (int j = 0; j < per; ++j) {
        auto& strand = ((k + j) % 2 == 0) ? s0 : s1;
        auto& order = ((k + j) % 2 == 0) ? order0 : order1;
        yaclib::Submit(*strand, [&order, &done, k, j] {
          order += static_cast<char>('a' + k);
          order += static_cast<char>('0' + j % 10);
          done.fetch_add(1, std::memory_order_release);
        });
      }
    });
  }
  for (auto& t : subs) t.join();
  while (done.load(std::memory_order_acquire) != 3 * per) yaclib_std::this_thread::yield();
  tp->Stop();
  tp->Wait();
  std::string r = "strand0=" + order0 + " strand1=" + order1;
  Ev(r);
  env.result += r + ";";
}

// timed waits: sleep_for; condition_variable::wait_for / wait_until with and without predicate; waiters notified long
// before their deadline, never, and *around* their deadline (notify_one / notify_all racing with the timeout — the
// pattern that crashed the scheduler before /repo 33a96a1, D12); WaitFor on a future that is late / in time.
void ProgTimed(Env& env) {
  yaclib_std::mutex m;
  yaclib_std::condition_variable cv_go, cv_never, cv_near;
  bool go = false;
  std::string log;
  std::vector<yaclib_std::thread> ts;
  const int waiters = 1 + env.size;
  for (int k = 0; k < waiters; ++k) {
    ts.emplace_back([&, k] {
      std::unique_lock lock{m};
      bool ok;
      if (k % 2 == 0) {
        ok = cv_go.wait_for(lock, Ns{1000000 + k}, [&] { return go; });
      } else {  // without predicate: the status of each single wait is client visible
        ok = true;
        while (!go) {
          if (cv_go.wait_for(lock, Ns{1000000 + k}) == std::cv_status::timeout) {
            ok = go;
            break;
          }
        }
      }
      log += "w" + std::to_string(k) + (ok ? "+" : "-");
      Ev("waiter " + std::to_string(k) + " ok=" + std::to_string(ok));
    });
  }
  ts.emplace_back([&] {
    std::unique_lock lock{m};
    bool ok = cv_never.wait_for(lock, Ns{40}, [] { return false; });
    log += ok ? "n+" : "n-";
    Ev("never ok=" + std::to_string(ok));
  });
  for (int k = 0; k < 2 + env.size; ++k) {
    ts.emplace_back([&, k] {  // deadlines 30, 37, 44, …: the notifier below fires at about 25 and 35
      std::unique_lock lock{m};
      auto st = k % 2 == 0 ? cv_near.wait_for(lock, Ns{30 + 7 * k})
                           : cv_near.wait_until(lock, yaclib_std::chrono::steady_clock::now() + Ns{30 + 7 * k});
      log += st == std::cv_status::timeout ? "t" : "s";
      Ev("near " + std::to_string(k) + (st == std::cv_status::timeout ? " timeout" : " signalled"));
    });
  }
  ts.emplace_back([&] {
    yaclib_std::this_thread::sleep_for(Ns{25});
    cv_near.notify_one();
    Ev("slept 25");
    yaclib_std::this_thread::sleep_for(Ns{10});
    cv_near.notify_all();
    yaclib_std::this_thread::sleep_for(Ns{120});
    {
      std::lock_guard lock{m};
      go = true;
      log += "g";
    }
    cv_go.notify_all();
    Ev("notified");
  });
  auto [f_late, p_late] = yaclib::MakeContract<int>();
  auto [f_soon, p_soon] = yaclib::MakeContract<int>();
  auto [f_edge, p_edge] = yaclib::MakeContract<int>();
  ts.emplace_back([p = std::move(p_late)]() mutable {
    yaclib_std::this_thread::sleep_for(Ns{900});
    std::move(p).Set(7);
  });
  ts.emplace_back([p = std::move(p_soon)]() mutable {
    yaclib_std::this_thread::sleep_for(Ns{15});
    std::move(p).Set(8);
  });
  ts.emplace_back([p = std::move(p_edge)]() mutable {  // fulfilled around the waiter's deadline
    yaclib_std::this_thread::sleep_for(Ns{70});
    std::move(p).Set(9);
  });
  bool late = yaclib::WaitFor(Ns{60}, f_late);
  Ev("WaitFor late=" + std::to_string(late));
  bool edge = yaclib::WaitFor(Ns{10}, f_edge);
  Ev("WaitFor edge=" + std::to_string(edge));
  bool soon = yaclib::WaitFor(Ns{2000000}, f_soon);
  Ev("WaitFor soon=" + std::to_string(soon));
  yaclib::Wait(f_late, f_edge);
  for (auto& t : ts) t.join();
  std::string r = "timed log=" + log + " late=" + std::to_string(late) + " edge=" + std::to_string(edge) +
                  " soon=" + std::to_string(soon) + " v=" +
                  std::to_string(std::move(f_late).Get().Ok() + std::move(f_soon).Get().Ok() + std::move(f_edge).Get().Ok());
  Ev(r);
  env.result += r + ";";
}

// fibers with exactly the same virtual wake-up time: a common sleep_until deadline, and periodic workers on a common
// grid (this_thread::sleep_until has no jitter).  Which of them runs first is decided by the scheduler alone (insertion
// order into the sleep map + the seeded picks) and is client visible through the order of the events and the CAS retries.
void ProgSleep(Env& env) {
  yaclib_std::atomic<int> word{0};
  std::string order;
  const auto t0 = yaclib_std::chrono::steady_clock::now();
  std::vector<yaclib_std::thread> ts;
  const int sleepers = 3 + env.size;
  for (int k = 0; k < sleepers; ++k) {
    ts.emplace_back([&, k] {
      yaclib_std::this_thread::sleep_until(t0 + Ns{400});
      order += static_cast<char>('a' + k);
      int cur = word.load(std::memory_order_relaxed);
      while (!word.compare_exchange_weak(cur, cur + 1, std::memory_order_acq_rel, std::memory_order_relaxed)) {
      }
      Ev("sleeper " + std::to_string(k) + " saw " + std::to_string(cur));
    });
  }
  for (int k = 0; k < 3; ++k) {
    ts.emplace_back([&, k] {
      for (int i = 1; i <= 2 + env.size; ++i) {
        yaclib_std::this_thread::sleep_until(t0 + Ns{150 * i});  // the same grid for every ticker
        order += static_cast<char>('A' + k);
        int before = word.fetch_add(10, std::memory_order_acq_rel);
        Ev("tick " + std::to_string(k) + "." + std::to_string(i) + " saw " + std::to_string(before));
      }
    });
  }
  for (auto& t : ts) t.join();
  std::string r = "sleep order=" + order + " word=" + std::to_string(word.load());
  Ev(r);
  env.result += r + ";";
}

// every clock name of yaclib_std::chrono, by name: deadlines `Clock::now() + d` for sleep_until / wait_until /
// try_lock_until, durations measured as differences of `Clock::now()` of the SAME clock.  Under the FIBER backend all
// three are the virtual clock: the measured durations are virtual, hence a function of (program, seed, configuration),
// and they are client visible (events).  Absolute clock values never reach the trace.
template <typename Clock>
void ClockUser(const char* name, int k, yaclib_std::timed_mutex& held, std::string& log) {
  auto took = [](typename Clock::time_point a) {
    return std::to_string(std::chrono::duration_cast<Ns>(Clock::now() - a).count());
  };
  auto a = Clock::now();
  yaclib_std::this_thread::sleep_until(a + Ns{120 + 10 * k});
  Ev(std::string(name) + " sleep_until took " + took(a));
  {
    yaclib_std::mutex m;
    yaclib_std::condition_variable cv;
    std::unique_lock lock{m};
    auto b = Clock::now();
    auto st = cv.wait_until(lock, b + Ns{300 + k});  // nobody notifies
    Ev(std::string(name) + " wait_until " + (st == std::cv_status::timeout ? "timeout" : "signalled") + " took " + took(b));
    auto c = Clock::now();
    bool ok = cv.wait_until(lock, c + Ns{90}, [] { return false; });
    Ev(std::string(name) + " wait_until(pred) " + std::to_string(ok) + " took " + took(c));
  }
  auto d = Clock::now();
  bool got = held.try_lock_until(d + Ns{500 + 7 * k});  // the root holds it throughout
  Ev(std::string(name) + " try_lock_until " + std::to_string(got) + " took " + took(d));
  if (got) held.unlock();
  log += name[1];
}

void ProgClocks(Env& env) {
  yaclib_std::timed_mutex held;
  held.lock();
  std::string log;
  const auto start = yaclib_std::chrono::steady_clock::now();
  std::vector<yaclib_std::thread> ts;
  for (int k = 0; k < env.size; ++k) {
    ts.emplace_back([&, k] { ClockUser<yaclib_std::chrono::steady_clock>("steady_clock", 3 * k, held, log); });
    ts.emplace_back([&, k] { ClockUser<yaclib_std::chrono::system_clock>("system_clock", 3 * k + 1, held, log); });
    ts.emplace_back([&, k] { ClockUser<yaclib_std::chrono::high_resolution_clock>("high_resolution_clock", 3 * k + 2, held, log); });
  }
  for (auto& t : ts) t.join();
  held.unlock();
  auto total = std::chrono::duration_cast<Ns>(yaclib_std::chrono::steady_clock::now() - start).count();
  std::string r = "clocks log=" + log + " total=" + std::to_string(total);
  Ev(r);
  env.result += r + ";";
}

// coroutines hopping between a pool and a strand, awaiting each other
yaclib::Future<int> CoWorker(yaclib::IExecutor& pool, yaclib::IExecutor& strand, yaclib_std::atomic<int>& word, int k) {
  co_await yaclib::On(pool);
  int a = word.fetch_add(k, std::memory_order_acq_rel);
  Ev("co " + std::to_string(k) + " on pool saw " + std::to_string(a));
  co_await yaclib::On(strand);
  int b = word.fetch_add(1, std::memory_order_acq_rel);
  Ev("co " + std::to_string(k) + " on strand saw " + std::to_string(b));
  co_return k * 10;
}

yaclib::Future<int> CoParent(yaclib::IExecutor& pool, yaclib::IExecutor& strand, yaclib_std::atomic<int>& word, int n) {
  co_await yaclib::On(pool);
  std::vector<yaclib::Future<int>> kids;
  for (int k = 1; k <= n; ++k) kids.push_back(CoWorker(pool, strand, word, k));
  co_await yaclib::Await(kids.begin(), kids.end());
  int total = 0;
  for (auto& f : kids) total += std::move(f).Touch().Ok();
  Ev("co parent total " + std::to_string(total));
  co_return total;
}

void ProgCoro(Env& env) {
  auto tp = yaclib::MakeFairThreadPool(2);
  auto strand = yaclib::MakeStrand(tp);
  yaclib_std::atomic<int> word{0};
  auto f = CoParent(*tp, *strand, word, 1 + env.size);
  int total = std::move(f).Get().Ok();
  tp->Stop();
  tp->Wait();
  std::string r = "coro total=" + std::to_string(total) + " word=" + std::to_string(word.load());
  Ev(r);
  env.result += r + ";";
}

using Prog = void (*)(Env&);
struct ProgEntry {
  const char* name;
  std::vector<Prog> phase1;
  std::vector<Prog> phase2;  // empty: single-phase program
};

const std::vector<ProgEntry>& Programs() {
  static const std::vector<ProgEntry> kPrograms = {
    {"cas", {ProgCas}, {}},
    {"pool", {ProgPool}, {}},
    {"strand", {ProgStrand}, {}},
    {"timed", {ProgTimed}, {}},
    {"coro", {ProgCoro}, {}},
    {"sleep", {ProgSleep}, {}},
    {"clocks", {ProgClocks}, {}},
    {"all", {ProgCas, ProgPool, ProgStrand, ProgTimed, ProgCoro}, {}},
    // two-phase programs for the checkpoint / restore experiment (all threads of phase 1 are joined at the checkpoint)
    {"mixA", {ProgCas, ProgPool}, {ProgStrand, ProgTimed, ProgCas}},
    {"mixB", {ProgTimed, ProgStrand}, {ProgCoro, ProgPool, ProgCas}},
    {"mixC", {ProgCoro}, {ProgCas, ProgTimed, ProgStrand, ProgPool}},
    {"mixD", {ProgCas}, {ProgSleep, ProgCas, ProgTimed}},
    {"mixE", {ProgTimed, ProgCas}, {ProgClocks, ProgCas, ProgSleep}},
  };
  return kPrograms;
}

const ProgEntry* FindProg(const std::string& name) {
  for (auto& p : Programs())
    if (name == p.name) return &p;
  return nullptr;
}

// ------------------------------------------------------------------------------------------------ configurations
struct Config {
  std::string kind, key, prog = "all", reset = "seed+state";
  int size = 1, passes = 2;
  std::uint32_t seed = 1, freq = 16, pick = 10, afail = 13, sleep = 100, tick = 10;
  std::uint64_t count = 0;
  std::uint32_t state = 0;
  int quarantine = 1;
  int warm = 0;  // rec: run a program that draws numbers BEFORE SetSeed (former F3, kept armed)
  int apply = 1;     // 0: do NOT re-apply the fault configuration (it was applied by an earlier line of the process): only
                     //    SetSeed + SetInjectorState precede the run, which is all the property asks for
  int frag = 0;      // bit p set: fragment the heap before pass p (fiber objects then do not come in ascending order)
  int ckextra = 0;   // rec: extra injection points before the checkpoint (walks the checkpoint through the injector period)
};

bool ParseConfig(const std::string& line, Config& c) {
  std::istringstream in(line);
  if (!(in >> c.kind >> c.key)) return false;
  std::string kv;
  while (in >> kv) {
    auto eq = kv.find('=');
    if (eq == std::string::npos) return false;
    auto k = kv.substr(0, eq), v = kv.substr(eq + 1);
    if (k == "prog") c.prog = v;
    else if (k == "reset") c.reset = v;
    else if (k == "size") c.size = std::atoi(v.c_str());
    else if (k == "passes") c.passes = std::atoi(v.c_str());
    else if (k == "seed") c.seed = static_cast<std::uint32_t>(std::strtoul(v.c_str(), nullptr, 10));
    else if (k == "freq") c.freq = static_cast<std::uint32_t>(std::strtoul(v.c_str(), nullptr, 10));
    else if (k == "pick") c.pick = static_cast<std::uint32_t>(std::strtoul(v.c_str(), nullptr, 10));
    else if (k == "afail") c.afail = static_cast<std::uint32_t>(std::strtoul(v.c_str(), nullptr, 10));
    else if (k == "sleep") c.sleep = static_cast<std::uint32_t>(std::strtoul(v.c_str(), nullptr, 10));
    else if (k == "tick") c.tick = static_cast<std::uint32_t>(std::strtoul(v.c_str(), nullptr, 10));
    else if (k == "count") c.count = std::strtoull(v.c_str(), nullptr, 10);
    else if (k == "state") c.state = static_cast<std::uint32_t>(std::strtoul(v.c_str(), nullptr, 10));
    else if (k == "quarantine") c.quarantine = std::atoi(v.c_str());
    else if (k == "warm") c.warm = std::atoi(v.c_str());
    else if (k == "apply") c.apply = std::atoi(v.c_str());
    else if (k == "frag") c.frag = std::atoi(v.c_str());
    else if (k == "ckextra") c.ckextra = std::atoi(v.c_str());
    else return false;
  }
  return true;
}

void ApplyFaultConfig(const Config& c) {
  yaclib::SetFaultFrequency(c.freq);
  yaclib::SetAtomicFailFrequency(c.afail);
  yaclib::SetFaultSleepTime(c.sleep);
  yaclib::fiber::SetFaultTickLength(c.tick);
  yaclib::fiber::SetFaultRandomListPick(c.pick);
  yaclib::fiber::SetHardwareConcurrency(4);  // the default reads the machine
}

// Leave free holes of (roughly) fiber-object size in the heap, freed in a scrambled order and kept apart by small live
// blocks, so that the allocator hands the next fiber objects out in an order that is not their creation order — the
// normal state of a long-running test binary.  Nothing in a reproducible run may depend on it.
void FragmentHeap(unsigned salt) {
  std::mt19937_64 g{0x9e3779b97f4a7c15ULL ^ salt};
  std::vector<void*> holes;
  std::vector<std::size_t> sizes = {sizeof(yaclib::detail::fiber::Fiber<void (*)()>), 1536, 2048, 2304, 2560, 3072, 4096, 640, 1024};
  for (int round = 0; round < 40; ++round) {
    for (auto sz : sizes) {
      holes.push_back(std::malloc(sz + 8 * (g() % 8)));
      volatile char* keep = static_cast<char*>(std::malloc(24 + g() % 64));  // leaked separator: no coalescing
      if (keep != nullptr) keep[0] = 1;
    }
  }
  for (std::size_t i = holes.size(); i > 1; --i) std::swap(holes[i - 1], holes[g() % i]);
  for (std::size_t i = 0; i < holes.size(); ++i)
    if (i % 5 != 0) std::free(holes[i]);  // every fifth stays live
}

std::string gDumpDir;
std::string gDumpOnly;  // dump only this key (the other configurations of the batch still run: they are its history)

FILE* OpenDump(const Config& c, int pass) {
  if (gDumpDir.empty()) return nullptr;
  if (!gDumpOnly.empty() && gDumpOnly != c.key) return nullptr;
  std::string path = gDumpDir + "/" + c.key + "." + std::to_string(pass) + ".txt";
  return std::fopen(path.c_str(), "w");
}

void PrintDigest(const Config& c, int pass, const Rec& r, std::uint64_t injected, std::uint64_t rand, const Env& env) {
  Hash res;
  res.Add(env.result.data(), env.result.size());
  std::printf("digest %s pass=%d hash=%016llx lines=%llu resumes=%llu atomics=%llu syncs=%llu injected=%llu rand=%llu "
              "spurious=%llu casfail=%llu events=%016llx nevents=%llu result=%016llx\n",
              c.key.c_str(), pass, static_cast<unsigned long long>(r.trace.h), static_cast<unsigned long long>(r.lines),
              static_cast<unsigned long long>(r.resumes), static_cast<unsigned long long>(r.atomics),
              static_cast<unsigned long long>(r.syncs), static_cast<unsigned long long>(injected),
              static_cast<unsigned long long>(rand), static_cast<unsigned long long>(r.spurious),
              static_cast<unsigned long long>(r.casfail), static_cast<unsigned long long>(r.events.h),
              static_cast<unsigned long long>(r.nevents), static_cast<unsigned long long>(res.h));
  std::fflush(stdout);
}

// one execution: fresh scheduler, root fiber, `body` inside the root fiber
void InScheduler(const Config& c, const std::function<void()>& body) {
  gQuarantine = c.quarantine != 0;
  {
    yaclib::fault::Scheduler scheduler;
    yaclib::fault::Scheduler::Set(&scheduler);
    {
      yaclib_std::thread root{[&] { body(); }};
      root.join();
    }
    yaclib::fault::Scheduler::Set(nullptr);
  }
  gQuarantine = false;
  QuarantineFlush();
}

void RunPlain(const Config& c) {
  const auto* prog = FindProg(c.prog);
  if (prog == nullptr) {
    std::printf("error %s unknown program\n", c.key.c_str());
    return;
  }
  if (c.apply != 0) ApplyFaultConfig(c);
  for (int pass = 0; pass < c.passes; ++pass) {
    if (((c.frag >> pass) & 1) != 0) FragmentHeap(static_cast<unsigned>(pass + 1));
    // what has to be reset between two runs in one process (everything else is either per-Scheduler or only a
    // process-global *counter* whose deltas / relative values are compared)
    if (pass == 0 || c.reset == "seed+state" || c.reset == "seed") yaclib::SetSeed(c.seed);
    if (pass == 0 || c.reset == "seed+state") yaclib::fiber::SetInjectorState(0);
    Rec rec;
    rec.dump = OpenDump(c, pass);
    gRec = &rec;
    Env env;
    env.size = c.size;
    auto rand0 = yaclib::fiber::GetFaultRandomCount();
    auto inj0 = yaclib::GetInjectedCount();
    InScheduler(c, [&] {
      for (auto p : prog->phase1) p(env);
      for (auto p : prog->phase2) p(env);
    });
    PrintDigest(c, pass, rec, yaclib::GetInjectedCount() - inj0, yaclib::fiber::GetFaultRandomCount() - rand0, env);
    if (rec.dump != nullptr) std::fclose(rec.dump);
    gRec = nullptr;
  }
}

// a no-op thread: its id is the base for the ids of the fibers created afterwards (restore experiment)
std::uint64_t Probe() {
  yaclib_std::thread t{[] {}};
  auto id = t.get_id();
  t.join();
  return id;
}

void RunRecord(const Config& c) {
  const auto* prog = FindProg(c.prog);
  if (prog == nullptr || prog->phase2.empty()) {
    std::printf("error %s not a two-phase program\n", c.key.c_str());
    return;
  }
  ApplyFaultConfig(c);
  if (c.warm != 0) {  // the process draws numbers before it is seeded
    Rec warm;
    warm.on = false;
    gRec = &warm;
    Env e;
    InScheduler(c, [&] { ProgCas(e); });
    gRec = nullptr;
  }
  yaclib::SetSeed(c.seed);
  yaclib::fiber::SetInjectorState(0);
  Rec rec;
  gRec = &rec;
  Env env;
  env.size = c.size;
  std::uint64_t rand_ck = 0, inj_ck = 0;
  InScheduler(c, [&] {
    for (auto p : prog->phase1) p(env);
    for (int i = 0; i < c.ckextra; ++i) yaclib::InjectFault();  // move the checkpoint through the injector period
    // ---- checkpoint: only the root fiber exists
    auto base = Probe();
    auto count = yaclib::fiber::GetFaultRandomCount();  // exactly what the API reports (SetSeed reset it: f49f13c)
    auto state = yaclib::fiber::GetInjectorState();
    std::printf("ckpt %s count=%llu state=%u\n", c.key.c_str(), static_cast<unsigned long long>(count), state);
    rec.Reset();
    rec.base = base;
    rec.dump = OpenDump(c, 0);
    env.result.clear();
    rand_ck = yaclib::fiber::GetFaultRandomCount();
    inj_ck = yaclib::GetInjectedCount();
    for (auto p : prog->phase2) p(env);
    rec.on = false;  // the root's exit / join are not part of the compared segment
  });
  PrintDigest(c, 0, rec, yaclib::GetInjectedCount() - inj_ck, yaclib::fiber::GetFaultRandomCount() - rand_ck, env);
  if (rec.dump != nullptr) std::fclose(rec.dump);
  gRec = nullptr;
}

void RunReplay(const Config& c) {
  const auto* prog = FindProg(c.prog);
  if (prog == nullptr || prog->phase2.empty()) {
    std::printf("error %s not a two-phase program\n", c.key.c_str());
    return;
  }
  ApplyFaultConfig(c);
  yaclib::SetSeed(c.seed ^ 0x5bd1e995u);  // whatever happened before the restore must not matter
  Rec rec;
  gRec = &rec;
  Env env;
  env.size = c.size;
  std::uint64_t rand_ck = 0, inj_ck = 0;
  InScheduler(c, [&] {
    auto base = Probe();
    // ---- restore the recorded pair
    yaclib::SetSeed(c.seed);
    yaclib::fiber::ForwardToFaultRandomCount(c.count);
    yaclib::fiber::SetInjectorState(c.state);
    rec.Reset();
    rec.base = base;
    rec.dump = OpenDump(c, 1);
    rand_ck = yaclib::fiber::GetFaultRandomCount();
    inj_ck = yaclib::GetInjectedCount();
    for (auto p : prog->phase2) p(env);
    rec.on = false;
  });
  PrintDigest(c, 1, rec, yaclib::GetInjectedCount() - inj_ck, yaclib::fiber::GetFaultRandomCount() - rand_ck, env);
  if (rec.dump != nullptr) std::fclose(rec.dump);
  gRec = nullptr;
}

int Batch() {
  InstallTraceHooks();
  std::string line;
  while (std::getline(std::cin, line)) {
    if (line.empty() || line[0] == '#') continue;
    Config c;
    if (!ParseConfig(line, c)) {
      std::printf("error bad-config %s\n", line.c_str());
      continue;
    }
    std::printf("begin %s\n", c.key.c_str());
    std::fflush(stdout);
    if (c.kind == "run") RunPlain(c);
    else if (c.kind == "rec") RunRecord(c);
    else if (c.kind == "rep") RunReplay(c);
    else std::printf("error %s unknown kind\n", c.key.c_str());
    std::printf("end %s\n", c.key.c_str());
    std::fflush(stdout);
  }
  std::printf("done\n");
  return 0;
}

// ------------------------------------------------------------------------------------------------ pure decisions
std::uint64_t gObservedDraws = 0;

std::string Join(const std::vector<std::uint64_t>& v) {
  std::string s;
  for (auto x : v) s += (s.empty() ? "" : ",") + std::to_string(x);
  return s.empty() ? "-" : s;
}

std::vector<std::uint64_t> Raws(std::uint32_t seed, std::size_t n) {
  std::mt19937_64 mirror{seed};  // the library's engine type, seeded the same way
  std::vector<std::uint64_t> v;
  for (std::size_t i = 0; i < n; ++i) v.push_back(mirror());
  return v;
}

int Pure(std::uint64_t vseed) {
  using yaclib::detail::fiber::BiList;
  using yaclib::detail::fiber::Node;
  auto& h = yaclib::verif::gHooks;
  h = yaclib::verif::Hooks{};
  h.rand = [](void*, unsigned long long) -> long long {
    ++gObservedDraws;
    return -1;  // observer only: the built-in engine decides
  };
  // --- BiList::GetElement: every list size 0..6, index 0..25, both directions
  for (int n = 0; n <= 6; ++n) {
    std::vector<Node> nodes(static_cast<std::size_t>(n));
    BiList list;
    for (auto& nd : nodes) list.PushBack(&nd);
    for (std::size_t ind = 0; ind <= 25; ++ind) {
      for (int rev = 0; rev < 2; ++rev) {
        Node* r = list.GetElement(ind, rev != 0);
        long idx = -1;
        for (int i = 0; i < n; ++i)
          if (r == &nodes[static_cast<std::size_t>(i)]) idx = i;
        if (r != nullptr && idx < 0) idx = -2;  // not a member (would be a bug)
        std::printf("GE n=%d ind=%zu rev=%d = %ld\n", n, ind, rev, idx);
      }
    }
    while (!list.Empty()) list.PopBack();
  }
  std::mt19937_64 gen{vseed * 7919 + 17};
  // --- PollRandomElementFromList: drain lists of several sizes under several pick widths
  for (int round = 0; round < 60; ++round) {
    std::uint32_t seed = static_cast<std::uint32_t>(gen() % 100000);
    std::uint32_t pick = static_cast<std::uint32_t>(std::vector<int>{1, 2, 3, 10, 7, 64}[gen() % 6]);
    int n = static_cast<int>(1 + gen() % 9);
    yaclib::SetSeed(seed);
    yaclib::fiber::SetFaultRandomListPick(pick);
    std::vector<Node> nodes(static_cast<std::size_t>(n));
    BiList list;
    for (auto& nd : nodes) list.PushBack(&nd);
    auto c0 = yaclib::fiber::GetFaultRandomCount();
    gObservedDraws = 0;
    std::vector<std::uint64_t> picked;
    for (int i = 0; i < n; ++i) {
      Node* r = yaclib::detail::fiber::PollRandomElementFromList(list);
      for (int j = 0; j < n; ++j)
        if (r == &nodes[static_cast<std::size_t>(j)]) picked.push_back(static_cast<std::uint64_t>(j));
    }
    auto used = yaclib::fiber::GetFaultRandomCount() - c0;
    std::printf("POLL pick=%u n=%d raws=%s = %s used=%llu observed=%llu\n", pick, n, Join(Raws(seed, used)).c_str(),
                Join(picked).c_str(), static_cast<unsigned long long>(used), static_cast<unsigned long long>(gObservedDraws));
  }
  yaclib::fiber::SetFaultRandomListPick(10);
  // --- Injector: InjectFault outside a fiber (the yield is a no-op there); decision = injected-count delta
  for (int round = 0; round < 40; ++round) {
    std::uint32_t seed = static_cast<std::uint32_t>(gen() % 100000);
    std::uint32_t freq = static_cast<std::uint32_t>(std::vector<int>{1, 2, 3, 5, 16, 100}[gen() % 6]);
    std::uint32_t state0 = round % 4 == 0 ? freq : static_cast<std::uint32_t>(gen() % (2 * freq + 1));  // == freq: next point yields
    int calls = 60;
    yaclib::SetSeed(seed);
    yaclib::SetFaultFrequency(freq);
    yaclib::fiber::SetInjectorState(state0);
    auto c0 = yaclib::fiber::GetFaultRandomCount();
    std::string out;
    for (int i = 0; i < calls; ++i) {
      auto before = yaclib::GetInjectedCount();
      yaclib::InjectFault();
      bool inj = yaclib::GetInjectedCount() != before;
      out += (out.empty() ? "" : ",") + std::string(inj ? "1:" : "0:") + std::to_string(yaclib::fiber::GetInjectorState());
    }
    auto used = yaclib::fiber::GetFaultRandomCount() - c0;
    std::printf("NI freq=%u state=%u calls=%d raws=%s = %s used=%llu\n", freq, state0, calls, Join(Raws(seed, used)).c_str(),
                out.c_str(), static_cast<unsigned long long>(used));
  }
  yaclib::SetFaultFrequency(16);
  // --- GetRandNumber with mixed arguments, max = 1 included (one engine output per call, whatever max is)
  for (int round = 0; round < 30; ++round) {
    std::uint32_t seed = static_cast<std::uint32_t>(gen() % 100000);
    int calls = static_cast<int>(5 + gen() % 30);
    yaclib::SetSeed(seed);
    std::vector<std::uint64_t> maxs, outs;
    for (int i = 0; i < calls; ++i) {
      std::uint64_t m = gen() % 3 == 0 ? 1 : 1 + gen() % 20;
      maxs.push_back(m);
      outs.push_back(yaclib::detail::GetRandNumber(m));
    }
    auto used = yaclib::fiber::GetFaultRandomCount();
    // the engine position afterwards: the next five outputs
    std::vector<std::uint64_t> next;
    for (int i = 0; i < 5; ++i) next.push_back(yaclib::detail::GetRandNumber(1000003));
    std::printf("RN maxs=%s raws=%s = %s next=%s used=%llu\n", Join(maxs).c_str(), Join(Raws(seed, used + 5)).c_str(),
                Join(outs).c_str(), Join(next).c_str(), static_cast<unsigned long long>(used));
  }
  // --- SetInjectorState / GetInjectorState round trip: every state 0 .. frequency + 2 (state == frequency is "the next
  //     injection point yields") and the decision that follows
  for (std::uint32_t freq : {1u, 2u, 4u, 16u}) {
    yaclib::SetFaultFrequency(freq);
    for (std::uint32_t st = 0; st <= freq + 2; ++st) {
      yaclib::SetSeed(7);
      yaclib::fiber::SetInjectorState(st);
      auto got = yaclib::fiber::GetInjectorState();
      auto before = yaclib::GetInjectedCount();
      yaclib::InjectFault();
      bool inj = yaclib::GetInjectedCount() != before;
      std::printf("SS freq=%u state=%u raws=%s = %u %d:%u\n", freq, st, Join(Raws(7, 1)).c_str(), got, inj ? 1 : 0,
                  yaclib::fiber::GetInjectorState());
    }
  }
  yaclib::SetFaultFrequency(16);
  // --- ShouldFailAtomicWeak
  for (int round = 0; round < 30; ++round) {
    std::uint32_t seed = static_cast<std::uint32_t>(gen() % 100000);
    std::uint32_t freq = static_cast<std::uint32_t>(std::vector<int>{0, 1, 2, 3, 13, 50}[gen() % 6]);
    int calls = 50;
    yaclib::SetSeed(seed);
    yaclib::SetAtomicFailFrequency(freq);
    auto c0 = yaclib::fiber::GetFaultRandomCount();
    std::string out;
    for (int i = 0; i < calls; ++i) out += yaclib::detail::ShouldFailAtomicWeak() ? "1" : "0";
    auto used = yaclib::fiber::GetFaultRandomCount() - c0;
    std::printf("FW freq=%u calls=%d raws=%s = %s used=%llu\n", freq, calls, Join(Raws(seed, used)).c_str(), out.c_str(),
                static_cast<unsigned long long>(used));
  }
  yaclib::SetAtomicFailFrequency(13);
  // --- the engine state depends on the number of draws only: k draws with arbitrary `max`, then compare the next draws
  //     with those after SetSeed + ForwardToFaultRandomCount(k)
  for (int round = 0; round < 30; ++round) {
    std::uint32_t seed = static_cast<std::uint32_t>(gen() % 100000);
    int k = static_cast<int>(gen() % 200);
    yaclib::SetSeed(seed);
    auto c0 = yaclib::fiber::GetFaultRandomCount();
    for (int i = 0; i < k; ++i) yaclib::detail::GetRandNumber(1 + gen() % 1000);
    auto count = yaclib::fiber::GetFaultRandomCount() - c0;
    std::vector<std::uint64_t> a, b;
    for (int i = 0; i < 5; ++i) a.push_back(yaclib::detail::GetRandNumber(1000003));
    yaclib::SetSeed(seed);
    auto c1 = yaclib::fiber::GetFaultRandomCount();
    yaclib::fiber::ForwardToFaultRandomCount(count);
    auto forwarded = yaclib::fiber::GetFaultRandomCount() - c1;
    for (int i = 0; i < 5; ++i) b.push_back(yaclib::detail::GetRandNumber(1000003));
    auto raws = Raws(seed, static_cast<std::size_t>(k) + 5);
    std::vector<std::uint64_t> expect;
    for (int i = 0; i < 5; ++i) expect.push_back(raws[static_cast<std::size_t>(k + i)] % 1000003);
    std::printf("FWD seed=%u k=%d count=%llu forwarded=%llu same=%d mirror=%d\n", seed, k,
                static_cast<unsigned long long>(count), static_cast<unsigned long long>(forwarded), a == b ? 1 : 0,
                a == expect ? 1 : 0);
  }
  // --- former F3 (fixed in /repo f49f13c), kept armed: the restore clause used as documented, with the count EXACTLY as
  //     GetFaultRandomCount() reports it, in a process that drew numbers before SetSeed (public API only, outside
  //     fibers: InjectFault decides, its yield is a no-op here).  A fresh process is `SetSeed; ForwardToFaultRandomCount(n)`
  //     — which is what the same calls do here: SetSeed resets the counter and the engine.
  yaclib::SetFaultFrequency(3);
  for (int round = 0; round < 24; ++round) {
    std::uint32_t seed = static_cast<std::uint32_t>(gen() % 100000);
    int pre = round % 3 == 0 ? 0 : static_cast<int>(1 + gen() % 40);  // injection points before SetSeed
    int phase1 = static_cast<int>(5 + gen() % 60);
    auto decisions = [](int n) {
      std::string out;
      for (int i = 0; i < n; ++i) {
        auto before = yaclib::GetInjectedCount();
        yaclib::InjectFault();
        out += yaclib::GetInjectedCount() != before ? '1' : '0';
      }
      return out;
    };
    yaclib::SetSeed(seed ^ 0x9e3779b9u);
    yaclib::fiber::SetInjectorState(0);
    decisions(pre);
    auto before_seed = yaclib::fiber::GetFaultRandomCount();  // numbers drawn by the process before it is seeded
    yaclib::SetSeed(seed);
    yaclib::fiber::SetInjectorState(0);
    auto at_seed = yaclib::fiber::GetFaultRandomCount();  // 0 since f49f13c
    decisions(phase1);
    auto count = yaclib::fiber::GetFaultRandomCount();  // the recorded pair, exactly as the API reports it
    auto state = yaclib::fiber::GetInjectorState();
    auto orig = decisions(64);
    yaclib::SetSeed(seed);
    yaclib::fiber::ForwardToFaultRandomCount(count);
    yaclib::fiber::SetInjectorState(state);
    auto shown = yaclib::fiber::GetFaultRandomCount();  // the restored process reports the recorded count again
    auto restored = decisions(64);
    std::printf("F3 seed=%u drawn_before_SetSeed=%llu count_right_after_SetSeed=%llu recorded_count=%llu state=%u "
                "count_after_restore=%llu original=%s restored_with_recorded_count=%s\n", seed,
                static_cast<unsigned long long>(before_seed), static_cast<unsigned long long>(at_seed),
                static_cast<unsigned long long>(count), state, static_cast<unsigned long long>(shown), orig.c_str(),
                restored.c_str());
  }
  yaclib::SetFaultFrequency(16);
  std::printf("done\n");
  return 0;
}


// ------------------------------------------------------------------------------------------------ scheduler scripts
// `c17 sched`: random straight-line scripts per fiber over the raw scheduler interface (InjectFault, ShouldFailAtomicWeak,
// yield, thread creation / join, Scheduler::Sleep, FiberQueue::Wait / Wait(duration) / NotifyOne / NotifyAll).  Every call
// is logged (`>` + request) together with what it observably did (flags, fiber switches from on_resume, timed-wait
// results); the Lean model `Sched.step` is then run on the logged request sequence and the raw draws of a mirror engine
// and must produce the same observations (checks/C17.py).  Each script runs in a forked child that logs into shared
// memory, so that a crash of the scheduler (there must be none) leaves the log up to the crash behind.
struct SOp {
  char k;
  int a, b;
};
struct SScript {
  int id;
  std::vector<SOp> ops;
};
struct SPend {
  char kind = 0;
  bool flagged = false, resumed = false;
};
struct SRun {
  std::vector<SScript> scripts;
  std::vector<yaclib::detail::fiber::FiberQueue*> queues;
  std::map<unsigned long long, int> ids;  // real fiber id -> script id (ordered map, lookups only)
  std::vector<SPend> pend;
  std::vector<int> joiner;
  std::vector<bool> finished;
  std::vector<yaclib_std::thread*> threads;
  int current = -1;
  char* log = nullptr;
  std::size_t pos = 0, cap = 0;
};
SRun* gS = nullptr;

void Tok(const std::string& t) {
  auto& s = *gS;
  if (s.pos + t.size() + 2 >= s.cap) return;
  std::memcpy(s.log + s.pos, t.data(), t.size());
  s.pos += t.size();
  s.log[s.pos++] = ' ';
  s.log[s.pos] = 0;
}

void RunScript(int me);

void SchedHooks() {
  auto& h = yaclib::verif::gHooks;
  h = yaclib::verif::Hooks{};
  h.on_resume = [](void*, unsigned long long id) {
    auto& s = *gS;
    int g;
    auto it = s.ids.find(id);
    if (it == s.ids.end()) {
      g = 0;  // only the root is resumed before its id is known
      s.ids.emplace(id, 0);
    } else {
      g = it->second;
    }
    if (s.current >= 0) {
      auto& p = s.pend[static_cast<std::size_t>(s.current)];
      if (p.kind == 'I' && !p.flagged) {
        p.flagged = true;
        Tok("f1");
      }
    }
    Tok("r" + std::to_string(g));
    s.pend[static_cast<std::size_t>(g)].resumed = true;
    s.current = g;
  };
}

void RunScript(int me) {
  auto& s = *gS;
  auto& p = s.pend[static_cast<std::size_t>(me)];
  auto begin = [&](char k, const std::string& req) {
    p = SPend{};
    p.kind = k;
    Tok(">" + req);
  };
  for (auto op : s.scripts[static_cast<std::size_t>(me)].ops) {
    switch (op.k) {
      case 'I': {
        begin('I', "I");
        yaclib::InjectFault();
        if (!p.flagged) Tok("f0");
      } break;
      case 'W': {
        begin('W', "W");
        Tok(yaclib::detail::ShouldFailAtomicWeak() ? "f1" : "f0");
      } break;
      case 'Y': {
        begin('Y', "Y");
        yaclib_std::this_thread::yield();
      } break;
      case 'S': {
        begin('S', "S" + std::to_string(op.a));
        int child = op.a;
        auto* t = new yaclib_std::thread{[child] { RunScript(child); }};
        s.ids.emplace(t->get_id(), child);
        s.threads[static_cast<std::size_t>(child)] = t;
        Tok("u");
      } break;
      case 'L': {
        begin('L', "L" + std::to_string(op.a));
        yaclib_std::this_thread::sleep_for(Ns{op.a});
        if (!p.resumed) Tok("u");
      } break;
      case 'P': {
        begin('P', "P" + std::to_string(op.a));
        s.queues[static_cast<std::size_t>(op.a)]->Wait(yaclib::detail::fiber::NoTimeoutTag{});
      } break;
      case 'T': {
        begin('T', "T" + std::to_string(op.a) + "." + std::to_string(op.b));
        auto st = s.queues[static_cast<std::size_t>(op.a)]->Wait(Ns{op.b});
        bool timeout = st == yaclib::detail::WaitStatus::Timeout;
        if (p.resumed) Tok(timeout ? "t1" : "t0");
        else Tok(timeout ? "f1" : "f0?");
      } break;
      case 'N': {
        begin('N', "N" + std::to_string(op.a));
        s.queues[static_cast<std::size_t>(op.a)]->NotifyOne();
        Tok("u");
      } break;
      case 'A': {
        begin('A', "A" + std::to_string(op.a));
        s.queues[static_cast<std::size_t>(op.a)]->NotifyAll();
        Tok("u");
      } break;
      case 'J': {
        auto child = static_cast<std::size_t>(op.a);
        if (s.threads[child] == nullptr) break;
        if (!s.finished[child]) {
          begin('U', "U");
          s.joiner[child] = me;
        }
        s.threads[child]->join();
        delete s.threads[child];
        s.threads[child] = nullptr;
      } break;
      default:
        break;
    }
    p.kind = 0;
  }
  s.finished[static_cast<std::size_t>(me)] = true;
  if (s.joiner[static_cast<std::size_t>(me)] >= 0) {
    Tok(">K" + std::to_string(s.joiner[static_cast<std::size_t>(me)]));
    Tok("u");
  }
  p = SPend{};
  Tok(">X");
}

// a random family of scripts: the root spawns up to three fibers (one of them may spawn a fourth)
std::vector<SScript> GenScripts(std::mt19937_64& gen, int nq) {
  int kids = 1 + static_cast<int>(gen() % 3);
  bool grandchild = gen() % 3 == 0;
  int total = 1 + kids + (grandchild ? 1 : 0);
  std::vector<SScript> sc(static_cast<std::size_t>(total));
  auto body = [&](int len, bool may_block) {
    std::vector<SOp> ops;
    for (int i = 0; i < len; ++i) {
      auto r = gen() % 100;
      int q = static_cast<int>(gen() % static_cast<unsigned>(nq));
      if (r < 45) ops.push_back({'I', 0, 0});
      else if (r < 55) ops.push_back({'W', 0, 0});
      else if (r < 63) ops.push_back({'Y', 0, 0});
      else if (r < 72) ops.push_back({'L', static_cast<int>(std::vector<int>{0, 1, 7, 12, 30, 95}[gen() % 6]), 0});
      else if (r < 82) ops.push_back({'T', q, static_cast<int>(std::vector<int>{0, 3, 9, 15, 40, 200}[gen() % 6])});
      else if (r < 86 && may_block) ops.push_back({'P', q, 0});
      else if (r < 94) ops.push_back({'N', q, 0});
      else ops.push_back({'A', q, 0});
    }
    return ops;
  };
  for (int f = 0; f < total; ++f) sc[static_cast<std::size_t>(f)].id = f;
  // root: a prefix, the spawns interleaved with work, more work, wake-ups, joins
  auto& root = sc[0].ops;
  for (auto& o : body(static_cast<int>(gen() % 4), false)) root.push_back(o);
  for (int k = 1; k <= kids; ++k) {
    root.push_back({'S', k, 0});
    for (auto& o : body(static_cast<int>(gen() % 4), false)) root.push_back(o);
  }
  for (auto& o : body(static_cast<int>(3 + gen() % 8), false)) root.push_back(o);
  for (int q = 0; q < nq; ++q) root.push_back({'A', q, 0});
  for (int k = 1; k <= kids; ++k) root.push_back({'J', k, 0});
  for (int k = 1; k <= kids; ++k) {
    auto& ops = sc[static_cast<std::size_t>(k)].ops;
    for (auto& o : body(static_cast<int>(2 + gen() % 9), true)) ops.push_back(o);
    if (grandchild && k == 1) {
      ops.push_back({'S', kids + 1, 0});
      for (auto& o : body(static_cast<int>(gen() % 5), true)) ops.push_back(o);
      ops.push_back({'J', kids + 1, 0});
    }
  }
  if (grandchild) sc[static_cast<std::size_t>(kids + 1)].ops = body(static_cast<int>(1 + gen() % 7), true);
  return sc;
}

}  // namespace

#include <sys/mman.h>
#include <sys/wait.h>
#include <unistd.h>

namespace {

int Sched(std::uint64_t vseed, int count) {
  std::mt19937_64 gen{vseed * 1000003 + 29};
  const std::size_t cap = 1 << 16;
  char* shared = static_cast<char*>(mmap(nullptr, cap, PROT_READ | PROT_WRITE, MAP_SHARED | MAP_ANONYMOUS, -1, 0));
  if (shared == MAP_FAILED) return 3;
  for (int round = 0; round < count; ++round) {
    Config c;
    c.seed = static_cast<std::uint32_t>(gen() % 1000000);
    c.freq = static_cast<std::uint32_t>(std::vector<int>{1, 2, 3, 5, 16}[gen() % 5]);
    c.pick = static_cast<std::uint32_t>(std::vector<int>{1, 2, 3, 10}[gen() % 4]);
    c.afail = static_cast<std::uint32_t>(std::vector<int>{0, 2, 3, 13}[gen() % 4]);
    c.sleep = static_cast<std::uint32_t>(std::vector<int>{1, 3, 7, 100}[gen() % 4]);
    c.tick = static_cast<std::uint32_t>(std::vector<int>{1, 5, 10, 10}[gen() % 4]);
    c.state = static_cast<std::uint32_t>(gen() % (c.freq + 2));
    const int nq = 2;
    auto scripts = GenScripts(gen, nq);
    shared[0] = 0;
    std::fflush(stdout);
    pid_t pid = fork();
    if (pid == 0) {
      SRun run;
      gS = &run;
      run.scripts = scripts;
      run.log = shared;
      run.cap = cap;
      auto n = scripts.size();
      run.pend.assign(n, SPend{});
      run.joiner.assign(n, -1);
      run.finished.assign(n, false);
      run.threads.assign(n, nullptr);
      for (int q = 0; q < nq; ++q) run.queues.push_back(new yaclib::detail::fiber::FiberQueue{});
      SchedHooks();
      ApplyFaultConfig(c);
      yaclib::SetSeed(c.seed);
      yaclib::fiber::SetInjectorState(c.state);
      auto c0 = yaclib::fiber::GetFaultRandomCount();
      auto* scheduler = new yaclib::fault::Scheduler{};
      yaclib::fault::Scheduler::Set(scheduler);
      Tok(">S0");
      auto* root = new yaclib_std::thread{[] { RunScript(0); }};
      (void)root;
      Tok("idle");
      Tok("used=" + std::to_string(yaclib::fiber::GetFaultRandomCount() - c0));
      _exit(0);
    }
    int status = 0;
    waitpid(pid, &status, 0);
    std::string log = shared;
    bool crashed = !(WIFEXITED(status) && WEXITSTATUS(status) == 0);
    std::string script, outs, used = "?";
    std::istringstream in(log);
    std::string t;
    std::size_t ntok = 0;
    while (in >> t) {
      ++ntok;
      if (t[0] == '>') script += (script.empty() ? "" : ";") + t.substr(1);
      else if (t.rfind("used=", 0) == 0) used = t.substr(5);
      else outs += (outs.empty() ? "" : ",") + t;
    }
    if (crashed) outs += (outs.empty() ? "" : ",") + std::string("crash");
    std::printf("SCHED freq=%u pick=%u afail=%u sleep=%u tick=%u state=%u raws=%s script=%s = %s used=%s\n", c.freq, c.pick,
                c.afail, c.sleep, c.tick, c.state, Join(Raws(c.seed, 2 * ntok + 64)).c_str(), script.c_str(), outs.c_str(),
                used.c_str());
  }
  std::printf("done\n");
  return 0;
}

}  // namespace

int main(int argc, char** argv) {
  std::string mode = argc > 1 ? argv[1] : "";
  std::uint64_t vseed = 1;
  int count = 200;
  for (int i = 2; i < argc; ++i) {
    std::string a = argv[i];
    if (a == "--dump" && i + 1 < argc) gDumpDir = argv[++i];
    else if (a == "--dump-only" && i + 1 < argc) gDumpOnly = argv[++i];
    else if (a == "--seed" && i + 1 < argc) vseed = std::strtoull(argv[++i], nullptr, 10);
    else if (a == "--count" && i + 1 < argc) count = std::atoi(argv[++i]);
    else if (a == "--pre-malloc" && i + 1 < argc) {
      // perturb the heap layout: one big block and a few hundred small ones, leaked on purpose
      std::size_t n = std::strtoull(argv[++i], nullptr, 10);
      volatile char* big = static_cast<char*>(std::malloc(n + 1));
      if (big != nullptr) big[0] = 1;
      for (std::size_t k = 0; k < n % 617; ++k) {
        volatile char* small = static_cast<char*>(std::malloc(16 + (k * 37) % 200));
        if (small != nullptr) small[0] = 1;
      }
    }
  }
  gDebugValues = std::getenv("C17_DEBUG_VALUES") != nullptr;
  if (mode == "batch") return Batch();
  if (mode == "pure") return Pure(vseed);
  if (mode == "sched") return Sched(vseed, count);
  std::fprintf(stderr, "usage: c17 batch|pure|sched …\n");
  return 2;
}
