#!/usr/bin/env python3
"""tools/store_seed.py <seed-id> <patch> <demo> <readme|-> <<< '{"property":…,"agent":…,"change":…,"needs":…,"suite":…,"demo":…,"exit":1,"caught_by":…}'
Stores a confirmed seeded change under /verif/seeded/<seed-id>/ (patch.diff, demo.*, README.txt, meta.json)."""
import json
import os
import shutil
import sys

ROOT = os.path.dirname(os.path.dirname(os.path.abspath(__file__)))
sid, patch, demo, readme = sys.argv[1:5]
m = json.load(sys.stdin)
d = os.path.join(ROOT, 'seeded', sid)
os.makedirs(d, exist_ok=True)
shutil.copy(patch, os.path.join(d, 'patch.diff'))
shutil.copy(demo, os.path.join(d, 'demo' + os.path.splitext(demo)[1]))
if readme != '-' and os.path.exists(readme):
    shutil.copy(readme, os.path.join(d, 'README.txt'))
meta = {
    'property': m['property'],
    'written_by': 'sub-agent %s (saw only the property text and its own worktree)' % m['agent'],
    'change': m['change'],
    'needs_to_manifest': m['needs'],
    'confirmed': {'baseline_suite': m['suite'], 'demo': m['demo']},
    'check_result': {'cmd': 'tools/try_seed.sh %s seeded/%s/patch.diff  (= apply to a scratch worktree, VERIF_REPO=… python3 check.py %s)'
                     % (m['property'], sid, m['property']),
                     'exit': m.get('exit', 1), 'caught_by': m['caught_by']},
}
if 'note' in m:
    meta['note'] = m['note']
json.dump(meta, open(os.path.join(d, 'meta.json'), 'w'), indent=1)
print('stored', d)
