#!/bin/bash
# tools/try_seed.sh <Cxx> <patch>… : run a check against a scratch worktree with the patch applied.
# Touches neither /repo nor /verif/lean: the worktree is /tmp/wt_mut_<Cxx>, the Lean project a copy in /tmp/lean_mut_<Cxx>
# (per property, so that concurrent users do not revert each other's patches), evidence goes to /tmp/try_seed_ev_<Cxx>.
prop=$1; shift
wt=${TRY_WT:-/tmp/wt_mut_$prop}
lean=${TRY_LEAN:-/tmp/lean_mut_$prop}
[ -d $wt ] || git -C /repo worktree add --detach $wt HEAD >/dev/null 2>&1
git -C $wt checkout -q -- . ; git -C $wt checkout -q --detach $(git -C /repo rev-parse HEAD)
rsync -a --delete /verif/lean/ $lean/
mkdir -p /tmp/try_seed_ev_$prop
for p in "$@"; do
  p=$(realpath "$p")
  git -C $wt apply $p || { echo "$p: does not apply"; continue; }
  (cd /verif && VERIF_REPO=$wt VERIF_LEAN=$lean VERIF_EVIDENCE_DIR=/tmp/try_seed_ev_$prop python3 check.py $prop ${TRY_ARGS} > /tmp/try_seed_out_${prop}_$(basename $p .diff).txt 2>&1); rc=$?
  echo "== $p exit=$rc"; [ $rc != 0 ] && ! grep -q "^VIOLATION" /tmp/try_seed_out_${prop}_$(basename $p .diff).txt && tail -3 /tmp/try_seed_out_${prop}_$(basename $p .diff).txt | cut -c1-300; grep -E "^VIOLATION|^violation|^KNOWN" /tmp/try_seed_out_${prop}_$(basename $p .diff).txt | cut -c1-240 | head -5
  git -C $wt diff --quiet && echo "WARNING: the worktree was reverted during the run (concurrent user?)"
  git -C $wt checkout -q -- .
done
