#!/bin/bash
# tools/try_seed.sh <Cxx> <patch>… : run a check against a scratch worktree with the patch applied.
# Touches neither /repo nor /verif/lean: the worktree is /tmp/wt_mut, the Lean project a copy in /tmp/lean_mut
# (so that concurrent development in /verif/lean is not disturbed by files regenerated from the mutated source).
prop=$1; shift
wt=${TRY_WT:-/tmp/wt_mut}
lean=${TRY_LEAN:-/tmp/lean_mut}
[ -d $wt ] || git -C /repo worktree add --detach $wt HEAD >/dev/null
git -C $wt checkout -q -- . ; git -C $wt checkout -q --detach $(git -C /repo rev-parse HEAD)
rsync -a --delete /verif/lean/ $lean/
for p in "$@"; do
  git -C $wt apply $p || { echo "$p: does not apply"; continue; }
  (cd /verif && VERIF_REPO=$wt VERIF_LEAN=$lean VERIF_EVIDENCE_DIR=/tmp/try_seed_ev python3 check.py $prop ${TRY_ARGS} > /tmp/try_seed_out_$prop.txt 2>&1); rc=$?
  echo "== $p exit=$rc"; grep -E "^VIOLATION|^violation|^KNOWN" /tmp/try_seed_out_$prop.txt | cut -c1-240 | head -5
  git -C $wt checkout -q -- .
done
