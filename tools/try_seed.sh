#!/bin/bash
# tools/try_seed.sh <Cxx> <patch>… : run a check against a scratch worktree with the patch applied (does not touch /repo)
prop=$1; shift
wt=/tmp/wt_mut
git -C $wt checkout -q -- . ; git -C $wt checkout -q --detach $(git -C /repo rev-parse HEAD)
for p in "$@"; do
  git -C $wt apply $p || { echo "$p: does not apply"; continue; }
  (cd /verif && VERIF_REPO=$wt python3 check.py $prop > /tmp/try_seed_out.txt 2>&1); rc=$?
  echo "== $p exit=$rc"; grep -E "^VIOLATION|^violation|^KNOWN" /tmp/try_seed_out.txt | cut -c1-240 | head -5
  git -C $wt checkout -q -- .
done
