#!/usr/bin/env python3
"""tools/regress_seeds.py [-j N] [seed-id …]
Re-runs the registered quick check of every stored seeded change (seeded/<id>/patch.diff) against a scratch worktree
(tools/try_seed.sh; never touches /repo) and records in seeded/<id>/meta.json under `last_regression` whether the check
still reports it (exit code, first VIOLATION line, with a replay or `no-failing-input-found`).  Properties run in
parallel (one worker per property: try_seed.sh keeps one scratch worktree and Lean copy per property)."""
import concurrent.futures
import json
import os
import re
import subprocess
import sys
import time

ROOT = os.path.dirname(os.path.dirname(os.path.abspath(__file__)))


def run_prop(prop, ids):
    out = {}
    for sid in ids:
        patch = os.path.join(ROOT, 'seeded', sid, 'patch.diff')
        t0 = time.time()
        r = subprocess.run([os.path.join(ROOT, 'tools', 'try_seed.sh'), prop, patch], capture_output=True, text=True)
        txt = r.stdout + r.stderr
        try:  # the complete output of the check (try_seed.sh prints only its head)
            txt += '\n' + open('/tmp/try_seed_out_%s_patch.txt' % prop).read()
        except OSError:
            pass
        m = re.search(r'exit=(\d+)', txt)
        code = int(m.group(1)) if m else None
        viol = sorted({l for l in txt.split('\n') if l.startswith('VIOLATION')})
        msgs = [l for l in txt.split('\n') if l.startswith('violation:')]
        applies = 'does not apply' not in txt
        with_input = [v for v in viol if 'no-failing-input-found' not in v]
        out[sid] = {
            'applies': applies, 'exit': code, 'violations': len(viol), 'with_failing_input': len(with_input),
            'first': (msgs[0][:200] if msgs else ''), 'seconds': round(time.time() - t0),
            'reverted_during_run': 'WARNING: the worktree was reverted' in txt,
        }
        print('%-7s exit=%s viol=%d with_input=%d %s%s' % (sid, code, len(viol), len(with_input), '' if applies else 'DOES-NOT-APPLY ',
                                                             out[sid]['first'][:110]), flush=True)
    return out


def main():
    args = sys.argv[1:]
    jobs = 4
    if args and args[0] == '-j':
        jobs = int(args[1])
        args = args[2:]
    ids = args or sorted(os.listdir(os.path.join(ROOT, 'seeded')))
    by_prop = {}
    for sid in ids:
        mp = os.path.join(ROOT, 'seeded', sid, 'meta.json')
        if os.path.exists(mp):
            by_prop.setdefault(json.load(open(mp))['property'], []).append(sid)
    results = {}
    with concurrent.futures.ThreadPoolExecutor(max_workers=jobs) as ex:
        futs = [ex.submit(run_prop, p, sorted(s)) for p, s in sorted(by_prop.items())]
        for f in futs:
            results.update(f.result())
    head = subprocess.run(['git', '-C', '/repo', 'rev-parse', '--short', 'HEAD'], capture_output=True, text=True).stdout.strip()
    vhead = subprocess.run(['git', '-C', ROOT, 'rev-parse', '--short', 'HEAD'], capture_output=True, text=True).stdout.strip()
    for sid, r in results.items():
        mp = os.path.join(ROOT, 'seeded', sid, 'meta.json')
        m = json.load(open(mp))
        m['last_regression'] = dict(r, repo_head=head, verif_head=vhead)
        json.dump(m, open(mp, 'w'), indent=1)
    json.dump(results, open(os.path.join(ROOT, '_work', 'seed_regress.json'), 'w'), indent=1)
    bad = [s for s, r in results.items() if r['exit'] != 1 or not r['applies']]
    noinput = [s for s, r in results.items() if r['exit'] == 1 and r['with_failing_input'] == 0]
    print('\n%d seeds; not reported: %s; reported without a failing input: %s' % (len(results), bad or 'none', noinput or 'none'))
    return 0


if __name__ == '__main__':
    sys.exit(main())
