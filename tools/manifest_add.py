#!/usr/bin/env python3
"""tools/manifest_add.py <Cxx> <technique> <level text> <level note tail> — add/replace a proof-level check entry."""
import json
import sys

NOTE = ("Trusted: Lean 4.33 kernel (axioms propext/Classical.choice/Quot.sound only, audited every run); the translators in "
        "/verif/vlib (clang-14 AST -> Lean); the correspondence harness; compiler/stdlib. See DESIGN.md §2.6.")


def add(prop, technique, text, note_tail, path='/verif/MANIFEST.json'):
    m = json.load(open(path))
    entry = {
        "property_id": prop,
        "quick_cmd": "python3 check.py %s --tier quick" % prop,
        "thorough_cmd": "python3 check.py %s --tier thorough" % prop,
        "evidence_file": "/verif/evidence/%s.json" % prop,
        "replay_cmd_template": "python3 check.py replay {path}",
        "engine": "lean-proof+translator+differential",
        "level_claimed": {"category": "proof", "text": text, "design_ref": "DESIGN.md §3 %s, notes/%s.md" % (prop, prop)},
        "level_note": NOTE + " " + note_tail,
        "technique": technique,
    }
    m['checks'] = [c for c in m['checks'] if c['property_id'] != prop] + [entry]
    m['checks'].sort(key=lambda c: c['property_id'])
    m['not_applicable'] = [x for x in m.get('not_applicable', []) if x['property_id'] != prop]
    m['engines'][0]['serves_properties'] = sorted(set(m['engines'][0]['serves_properties'] + [prop]))
    json.dump(m, open(path, 'w'), indent=1)


if __name__ == '__main__':
    add(*sys.argv[1:5])
