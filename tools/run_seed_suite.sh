#!/bin/bash
# tools/run_seed_suite.sh <worktree> <patch>… : for each patch: apply, build the default test configuration, run ctest, revert
wt=$1; shift
for p in "$@"; do
  git -C $wt checkout -q -- . ; git -C $wt apply $p || { echo "$p: does not apply"; continue; }
  cmake --build $wt/_build -j8 > $wt/_seed_build.log 2>&1 || { echo "$p: BUILD FAILED"; tail -5 $wt/_seed_build.log; git -C $wt checkout -q -- .; continue; }
  r=$(ctest --test-dir $wt/_build -j8 --timeout 900 2>&1 | grep -E "tests passed|tests failed")
  echo "$p: $r"
  git -C $wt checkout -q -- .
done
