#!/usr/bin/env python3
"""Self-check of the interface files: MANIFEST.json and every evidence file against their schemas, the
not_applicable list against properties.jsonl, and the known-findings file's shape.  Run before committing."""
import json
import os
import sys

ROOT = os.path.dirname(os.path.dirname(os.path.abspath(__file__)))


def main():
    try:
        import jsonschema
    except ImportError:
        sys.path.insert(0, '/opt/veriftools/pyvenv/lib/python3.11/site-packages')
        import jsonschema
    bad = 0
    man = json.load(open(os.path.join(ROOT, 'MANIFEST.json')))
    jsonschema.validate(man, json.load(open('/root/.vp/MANIFEST.schema.json')))
    props = [json.loads(l)['id'] for l in open(os.path.join(ROOT, 'properties.jsonl')) if l.strip()]
    claimed = [c['property_id'] for c in man['checks']]
    na = [x['property_id'] if isinstance(x, dict) else x for x in man.get('not_applicable', [])]
    for p in props:
        if (p in claimed) == (p in na):
            print('property %s: claimed=%s not_applicable=%s' % (p, p in claimed, p in na))
            bad += 1
    es = json.load(open('/root/.vp/EVIDENCE.schema.json'))
    for c in man['checks']:
        f = os.path.join(ROOT, c['evidence_file']) if not os.path.isabs(c['evidence_file']) else c['evidence_file']
        if not os.path.exists(f):
            print('missing evidence', f)
            bad += 1
            continue
        try:
            jsonschema.validate(json.load(open(f)), es)
        except Exception as e:  # noqa
            print('evidence %s invalid: %s' % (f, str(e).splitlines()[0]))
            bad += 1
    kf = json.load(open(os.path.join(ROOT, 'known_findings.json')))
    for e in kf.get('open', []):
        for k in ('property', 'id', 'match', 'what'):
            if k not in e:
                print('known finding without %s: %r' % (k, e))
                bad += 1
    for l in kf.get('fixed', []):
        if not l.startswith('fixed: property=C'):
            print('bad fixed line:', l)
            bad += 1
    print('validate: %d problems; claimed %d, not_applicable %d' % (bad, len(claimed), len(na)))
    return 1 if bad else 0


if __name__ == '__main__':
    sys.exit(main())
