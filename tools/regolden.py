#!/usr/bin/env python3
"""Refresh lean/YaclibModel/Model/Skeletons.lean (the committed copy of the kernel skeletons the models were
written from) from /repo's current tree.  Run by hand only, after a deliberate change of /repo (hooks, fix:
commits) whose effect on the models has been reviewed.  The checks never run this."""
import os
import sys

sys.path.insert(0, os.path.dirname(os.path.dirname(os.path.abspath(__file__))))
from vlib import common as C  # noqa: E402
from vlib import x_kernels  # noqa: E402

import subprocess
st = subprocess.run(['git', '-C', C.REPO, 'status', '--porcelain', '--untracked-files=no'], capture_output=True, text=True).stdout.strip()
if st:
    print('refusing to refresh the goldens: %s has uncommitted changes (a seeded change under test?)\n%s' % (C.REPO, st))
    sys.exit(2)
lib = C.build_lib('fiber')
for f in os.listdir(lib):
    if f.startswith('kernels-'):
        os.remove(os.path.join(lib, f))
with C.Lock('kernels'):
    text, problems, defs = x_kernels.generate(C.REPO, os.path.join(lib, 'include'), C.WORK)
if problems:
    print('\n'.join(problems))
    sys.exit(1)
out = ['/- The kernel skeletons the hand-written models were written from (committed copy; refreshed only by',
       '   tools/regolden.py after review).  `Extracted/Kernels.lean` is regenerated from /repo on every run and the',
       '   property files prove `Extracted.Kernels.X = Skeletons.X`. -/', 'namespace Yaclib.Skeletons', '']
for k, v in defs.items():
    out.append('def %s : String :=\n  %s\n' % (k, x_kernels._q(v)))
out.append('end Yaclib.Skeletons\n')
C.write_if_changed(os.path.join(C.LEAN, 'YaclibModel/Model/Skeletons.lean'), '\n'.join(out))
C.write_if_changed(os.path.join(C.LEAN, 'YaclibModel/Extracted/Kernels.lean'), text)
from vlib import x_anchors  # noqa: E402
x_anchors.write_golden(C.REPO)
print('ok', len(defs))
