#!/usr/bin/env python3
"""Regenerates the table of Appendix D in DESIGN.md from seeded/*/meta.json."""
import json
import os
import re

ROOT = os.path.dirname(os.path.dirname(os.path.abspath(__file__)))
rows = []
ids = sorted(os.listdir(os.path.join(ROOT, 'seeded')), key=lambda s: (s.split('-')[0], int(re.sub(r'\D', '', s.split('-')[1]) or 0), s))
for sid in ids:
    mp = os.path.join(ROOT, 'seeded', sid, 'meta.json')
    if not os.path.exists(mp):
        continue
    m = json.load(open(mp))
    cr = m['check_result']
    caught = cr['caught_by']
    if cr.get('exit') != 1:
        caught = '**not caught** — ' + caught
    def c(s):
        return s.replace('|', '\\|').replace('\n', ' ')
    rows.append('| %s | %s | %s | %s | `check.py %s`: %s |' % (sid, m['property'], c(m['change']), c(m['needs_to_manifest']), m['property'], c(caught)))
p = os.path.join(ROOT, 'DESIGN.md')
s = open(p).read()
head = '| seeded id | property | what it changes | needs | caught by |\n|---|---|---|---|---|\n'
i = s.index(head)
j = i + len(head)
k = j
while k < len(s) and s[k] == '|':
    k = s.index('\n', k) + 1
s = s[:j] + '\n'.join(rows) + '\n' + s[k:]
open(p, 'w').write(s)
print('%d seeded rows' % len(rows))
