#!/usr/bin/env python3
"""Regenerates the table of Appendix D in DESIGN.md from seeded/*/meta.json."""
import json
import os
import re

ROOT = os.path.dirname(os.path.dirname(os.path.abspath(__file__)))
rows = []
ids = sorted(os.listdir(os.path.join(ROOT, 'seeded')), key=lambda s: (s.split('-')[0], int(re.sub(r'\D', '', s.split('-')[1]) or 0), s))
for sid in ids:
    mp = os.path.join(ROOT, 'seeded', sid, 'meta.json')
    if not os.path.exists(mp):
        continue
    m = json.load(open(mp))
    cr = m['check_result']
    caught = cr['caught_by']
    if cr.get('exit') != 1:
        caught = '**not caught** — ' + caught
    def c(s):
        return s.replace('|', '\\|').replace('\n', ' ')
    rows.append('| %s | %s | %s | %s | `check.py %s`: %s |' % (sid, m['property'], c(m['change']), c(m['needs_to_manifest']), m['property'], c(caught)))
p = os.path.join(ROOT, 'DESIGN.md')
s = open(p).read()
head = '| seeded id | property | what it changes | needs | caught by |\n|---|---|---|---|---|\n'
i = s.index(head)
j = i + len(head)
k = j
while k < len(s) and s[k] == '|':
    k = s.index('\n', k) + 1
s = s[:j] + '\n'.join(rows) + '\n' + s[k:]
# summary between the markers of §0.4
first = {'input': 0, 'noinput': 0, 'missed': 0}
pending = []
props = set()
for sid in ids:
    mp = os.path.join(ROOT, 'seeded', sid, 'meta.json')
    if not os.path.exists(mp):
        continue
    m = json.load(open(mp))
    props.add(m['property'])
    cb = m['check_result']['caught_by']
    if 'MISSED' in cb:
        first['missed'] += 1
    elif re.search(r'before[^)]*no-failing-input-found|first run:[^;]*no-failing-input-found|before that: no-failing-input-found|'
                   r'before: (tie|translator|correspondence|only)', cb):
        first['noinput'] += 1
    else:
        first['input'] += 1
    if 'being added' in cb or 'being wired' in cb or m['check_result'].get('exit') != 1:
        pending.append(sid)
summary = ('%d seeded changes over %d properties are stored. On the FIRST run of the then-current check %d were reported with a '
           'concrete failing input (schedule, program or operation sequence as replay), %d were reported without one '
           '(`no-failing-input-found`: only a tie / the translator / the correspondence broke) and %d went unreported (exit 0). After the '
           'strengthening recorded per row, all are reported with a failing input%s.\n'
           % (len(rows), len(props), first['input'], first['noinput'], first['missed'],
              (' except ' + ', '.join(pending) + ' (in progress)') if pending else ''))
b, e = '<!-- SEED-SUMMARY-BEGIN -->\n', '<!-- SEED-SUMMARY-END -->'
if b in s and e in s:
    s = s[:s.index(b) + len(b)] + summary + s[s.index(e):]
open(p, 'w').write(s)
print('%d seeded rows' % len(rows))
