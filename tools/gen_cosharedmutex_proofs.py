#!/usr/bin/env python3
"""generate Proofs/CoSharedMutexS_<ctor>.lean (one preservation lemma per Step constructor) + CoSharedMutexInv.lean
   usage: gen2.py [dbg|auto] [ctor ...]"""
import re, sys, os
mode = sys.argv[1] if len(sys.argv) > 1 else 'auto'
only = sys.argv[2:]
LEAN='/verif/lean/YaclibModel'
src=open(LEAN+'/Model/CoSharedMutex.lean').read()
body=src[src.index('inductive Step : State → Label → State → Prop where'):src.index('inductive Reachable')]
body=re.sub(r'/--.*?-/', '', body, flags=re.S)
ctors=[]
for m in re.finditer(r'\n  \| (\w+) ((?:\([^()]*(?:\([^()]*\)[^()]*)*\)\s*)+):\s*Step s (.*?)(?=\n  \||\n\n|\Z)', body, flags=re.S):
    name, binders, concl = m.group(1), m.group(2), ' '.join(m.group(3).split())
    bs = re.findall(r'\(((?:[^()]|\([^()]*\))*)\)', binders)
    bs = [b.strip() for b in bs if not b.strip().startswith('s : State')]
    # conclusion = "(label) (state)" or "(label) { s with ... }"
    depth=0; i=0
    assert concl[0]=='('
    for i,ch in enumerate(concl):
        if ch=='(': depth+=1
        elif ch==')':
            depth-=1
            if depth==0: break
    label=concl[:i+1]; st=concl[i+1:].strip()
    names=[]
    for b in bs:
        names += b.split(':')[0].split()
    ctors.append((name, bs, names, label, st))
T = 'sm_dbg [List.count_le_length]' if mode=='dbg' else 'sm_auto [List.count_le_length]'
PWN='''have hpwn : s.pw = .none := by
    have h5 := hi.j5
    cases hp : s.pw.isSome
    · exact PW.eq_none_of_isSome hp
    · rw [hW, hp] at h5; simp at h5 <;> omega'''
HPB='''have hpb := pendBy_none_of_held hi hs (by rw [h]; rfl)
  have hpd := hi.pend_none hpb'''

# ---- per-constructor proof specs: either a plain body, or branches (each branch = its own lemma in its own file)
def B(binders, body):  # a branch: extra binders + proof body
    return (binders, body)

specs = {
 'rdFadd': dict(
   branches=[B('(hW : s.W = 0)', f'cases hi\n  simp only [doRdFadd, hW, ↓reduceIte]; {T}'),
             B('(hW : ¬ s.W = 0)', f'cases hi\n  simp only [doRdFadd, hW, ↓reduceIte]; {T}')],
   dispatch='by_cases hW : s.W = 0\n  · exact $1 hW\n  · exact $2 hW'),
 'spinOk': dict(
   branches=[B('(hk : k = .%s)' % k, f'subst hk\n  cases hi\n  {T}') for k in ('rd', 'wr', 'un')],
   dispatch='have hkd : k = .rd ∨ k = .wr ∨ k = .un := by cases k <;> simp\n  rcases hkd with hk | hk | hk\n  · exact $1 hk\n  · exact $2 hk\n  · exact $3 hk'),
 'spinBusy': dict(
   branches=[B('(hk : k = .%s)' % k, f'subst hk\n  cases hi\n  {T}') for k in ('rd', 'wr', 'un')],
   dispatch='have hkd : k = .rd ∨ k = .wr ∨ k = .un := by cases k <;> simp\n  rcases hkd with hk | hk | hk\n  · exact $1 hk\n  · exact $2 hk\n  · exact $3 hk'),
 'spinLoad': dict(
   branches=[B('(hk : k = .%s) (hf : sawFree = %s)' % (k, b),
               f'subst hk\n  subst hf\n  cases hi\n  simp only [Bool.not_true, Bool.not_false]\n  {T}')
             for k in ('rd', 'wr', 'un') for b in ('false', 'true')],
   dispatch='have hkd : k = .rd ∨ k = .wr ∨ k = .un := by cases k <;> simp\n  have hsd : sawFree = false ∨ sawFree = true := by cases sawFree <;> simp\n  rcases hkd with hk | hk | hk <;> rcases hsd with hsf | hsf\n  · exact $1 hk hsf\n  · exact $2 hk hsf\n  · exact $3 hk hsf\n  · exact $4 hk hsf\n  · exact $5 hk hsf\n  · exact $6 hk hsf'),
 'rdUnlock': dict(
   pre=f"""{HPB}
  have hc1 : s.ifl.count c = 1 := by have := hi.l_ifl c; rw [h] at this; simpa [Pc.isIFL] using this
  have hl := len_pos_of_count hc1
  have hWne : s.pass = 0 → s.W ≠ 0 := by
    intro hp0 hW0; have := (hi.j1 hW0).1; omega
  cases hi""",
   branches=[B('(hp : s.pass = 0) (hr : s.cfg.rfifo = false)',
               f'simp only [doRdUnlock, hp, hr, ne_eq, not_true_eq_false, Bool.false_eq_true, ↓reduceIte]\n  {T}'),
             B('(hp : s.pass = 0) (hr : s.cfg.rfifo = true)',
               f'simp only [doRdUnlock, hp, hr, ne_eq, not_true_eq_false, Bool.false_eq_true, ↓reduceIte]\n  {T}'),
             B('(hp : ¬ s.pass = 0)', f'simp only [doRdUnlock, hp, ne_eq, not_false_eq_true, ↓reduceIte]\n  {T}')],
   dispatch='by_cases hp : s.pass = 0\n  · cases hr : s.cfg.rfifo\n    · exact $1 hp hr\n    · exact $2 hp hr\n  · exact $3 hp'),
 'rdFsub': dict(
   pre='cases hi',
   branches=[B('(hW : s.W = 0)', f'simp only [doRdFsub, hW, ↓reduceIte]\n  {T}'),
             B('(hW : ¬ s.W = 0) (hpw : s.pw = .none)', f'simp only [doRdFsub, hW, ↓reduceIte]\n  {T}'),
             B('(hW : ¬ s.W = 0) (n' ' : Cid) (r : Nat) (hpw : s.pw = .a n r)', f'simp only [doRdFsub, hW, ↓reduceIte]\n  {T}'),
             B('(hW : ¬ s.W = 0) (n : Cid) (hpw : s.pw = .b n)', f'simp only [doRdFsub, hW, ↓reduceIte]\n  {T}'),
             B('(hW : ¬ s.W = 0) (n b : Cid) (hpw : s.pw = .c n b)', f'simp only [doRdFsub, hW, ↓reduceIte]\n  {T}')],
   dispatch='by_cases hW : s.W = 0\n  · exact $1 hW\n  · cases hpw : s.pw with\n    | none => exact $2 hW hpw\n    | a n r => exact $3 hW n r hpw\n    | b n => exact $4 hW n hpw\n    | c n b => exact $5 hW n b hpw'),
 'rwFsub': dict(
   pre='cases hi',
   branches=[B('(h1 : s.rwait = 1) (hpw : s.pw = .none)', f'simp only [doRwFsub, h1, hpw, ↓reduceIte]\n  {T}'),
             B('(h1 : s.rwait = 1) (n : Cid) (r : Nat) (hpw : s.pw = .a n r)', f'simp only [doRwFsub, h1, hpw, ↓reduceIte]\n  {T}'),
             B('(h1 : s.rwait = 1) (n : Cid) (hpw : s.pw = .b n)', f'simp only [doRwFsub, h1, hpw, ↓reduceIte]\n  {T}'),
             B('(h1 : s.rwait = 1) (n b : Cid) (hpw : s.pw = .c n b)', f'simp only [doRwFsub, h1, hpw, ↓reduceIte]\n  {T}'),
             B('(h1 : ¬ s.rwait = 1)', f'simp only [doRwFsub, h1, ↓reduceIte]\n  {T}')],
   dispatch='by_cases h1 : s.rwait = 1\n  · cases hpw : s.pw with\n    | none => exact $1 h1 hpw\n    | a n r => exact $2 h1 n r hpw\n    | b n => exact $3 h1 n hpw\n    | c n b => exact $4 h1 n b hpw\n  · exact $5 h1'),
 'twLoad': dict(
   pre='cases hi',
   branches=[B("(hz : sawZero = false) (ht' : curOp s c = .tryWr)", f"subst hz\n  simp only [doTwLoad, failW, ht', Bool.false_eq_true, ↓reduceIte]\n  {T}"),
             B("(hz : sawZero = false) (ht' : ¬ curOp s c = .tryWr)", f"subst hz\n  simp only [doTwLoad, failW, ht', Bool.false_eq_true, ↓reduceIte]\n  {T}"),
             B("(hz : sawZero = true)", f"subst hz\n  simp only [doTwLoad, ↓reduceIte]\n  {T}")],
   dispatch="have hzd : sawZero = false ∨ sawZero = true := by cases sawZero <;> simp\n  rcases hzd with hz | hz\n  · by_cases ht' : curOp s c = .tryWr\n    · exact $1 hz ht'\n    · exact $2 hz ht'\n  · exact $3 hz"),
 'twCasFail': dict(
   pre='cases hi',
   branches=[B("(ht' : curOp s c = .tryWr)", f"simp only [failW, ht', ↓reduceIte]\n  {T}"),
             B("(ht' : ¬ curOp s c = .tryWr)", f"simp only [failW, ht', ↓reduceIte]\n  {T}")],
   dispatch="by_cases ht' : curOp s c = .tryWr\n  · exact $1 ht'\n  · exact $2 ht'"),
 'wrFadd': dict(
   pre=HPB,
   branches=[B('(hW : s.W = 0) (hR : s.R = 0)', f'{PWN}\n  cases hi\n  simp only [doWrFadd, hW, hR, ↓reduceIte]\n  {T}'),
             B('(hW : s.W = 0) (hR : ¬ s.R = 0)', f'{PWN}\n  cases hi\n  simp only [doWrFadd, hW, hR, ↓reduceIte]\n  {T}'),
             B('(hW : ¬ s.W = 0)', f'cases hi\n  simp only [doWrFadd, hW, ↓reduceIte]\n  {T}')],
   dispatch='by_cases hW : s.W = 0\n  · by_cases hR : s.R = 0\n    · exact $1 hW hR\n    · exact $2 hW hR\n  · exact $3 hW'),
 'wrPost': dict(
   pre='cases hi',
   branches=[B('(hp : s.rwait = -(r : Int))', f'simp only [doWrPost, hp, ↓reduceIte]\n  {T}'),
             B('(hp : ¬ s.rwait = -(r : Int))', f'simp only [doWrPost, hp, ↓reduceIte]\n  {T}')],
   dispatch='by_cases hp : s.rwait = -(r : Int)\n  · exact $1 hp\n  · exact $2 hp'),
 'wUnlock': dict(
   pre='cases hi',
   branches=[B('(hk : k = .acq)', f'subst hk\n  simp only [doWUnlock]\n  {T}'),
             B('(hk : k = .enq) (hc : s.cfg.fifo = true ∧ s.Q = [])', f'subst hk\n  simp only [doWUnlock, hc, and_self, ↓reduceIte]\n  {T}'),
             B('(hk : k = .enq) (hc : ¬ (s.cfg.fifo = true ∧ s.Q = []))', f'subst hk\n  simp only [doWUnlock, hc, ↓reduceIte]\n  {T}')],
   dispatch='have hkd : k = .acq ∨ k = .enq := by cases k <;> simp\n  rcases hkd with hk | hk\n  · exact $1 hk\n  · by_cases hc : (s.cfg.fifo = true ∧ s.Q = [])\n    · exact $2 hk hc\n    · exact $3 hk hc'),
 'wuFsub': dict(
   pre='cases hi',
   branches=[B('(hb1 : s.cfg.fifo = true ∧ s.prio ≠ 0)',
               f'simp only [doWuFsub, branchOf, hb1, and_self, givesUp, Bool.false_eq_true, ↓reduceIte]\n  {T}'),
             B('(hb1 : ¬ (s.cfg.fifo = true ∧ s.prio ≠ 0)) (hq : s.Q = []) (hb2 : ¬ s.cfg.fifo = true ∧ s.W ≠ 1)',
               f'simp only [doWuFsub, branchOf, hb1, hq, hb2, ne_eq, not_true_eq_false, and_self, givesUp, Bool.false_eq_true, ↓reduceIte]\n  {T}'),
             B('(hb1 : ¬ (s.cfg.fifo = true ∧ s.prio ≠ 0)) (hq : s.Q = []) (hb2 : ¬ (¬ s.cfg.fifo = true ∧ s.W ≠ 1))',
               f'simp only [doWuFsub, branchOf, hb1, hq, hb2, ne_eq, not_true_eq_false, givesUp, Bool.false_eq_true, ↓reduceIte]\n  {T}'),
             B('(hb1 : ¬ (s.cfg.fifo = true ∧ s.prio ≠ 0)) (hq : ¬ s.Q = []) (hw1 : s.W = 1)',
               f'simp only [doWuFsub, branchOf, hb1, hq, hw1, ne_eq, not_true_eq_false, not_false_eq_true, givesUp, Bool.false_eq_true, ↓reduceIte]\n  {T}'),
             B('(hb1 : ¬ (s.cfg.fifo = true ∧ s.prio ≠ 0)) (hq : ¬ s.Q = []) (hw1 : ¬ s.W = 1)',
               f'simp only [doWuFsub, branchOf, hb1, hq, hw1, ne_eq, not_false_eq_true, givesUp, Bool.false_eq_true, ↓reduceIte]\n  {T}')],
   dispatch='by_cases hb1 : (s.cfg.fifo = true ∧ s.prio ≠ 0)\n  · exact $1 hb1\n  · by_cases hq : s.Q = []\n    · by_cases hb2 : (¬ s.cfg.fifo = true ∧ s.W ≠ 1)\n      · exact $2 hb1 hq hb2\n      · exact $3 hb1 hq hb2\n    · by_cases hw1 : s.W = 1\n      · exact $4 hb1 hq hw1\n      · exact $5 hb1 hq hw1'),
 'uUnlockW': dict(
   pre="""have ⟨hn, hnr⟩ := head_pc_wq hi hq
  have hmem : ∀ x, x ∈ s.Q ↔ s.pc x = .rparked := fun x => mem_iff_of_count (hi.l_q x)
  have hst := hi.st_sw c
  have hlq := hi.l_qsize""",
   branches=[B('(hbr : b = .runWriter) (hf : s.cfg.fifo = %s)' % f,
               f'subst hbr\n  cases hi\n  simp only [doUUnlock, hf, Bool.false_eq_true, ↓reduceIte]\n  {T}') for f in ('false', 'true')] +
            [B('(sw : Nat) (hbr : b = .stored sw) (hf : s.cfg.fifo = %s)' % f,
               f'subst hbr\n  have h2w := hi.j2w c ((hi.l_excl c).mp (by rw [h]; rfl))\n  have h2 := hi.j2 (by rw [(hi.l_excl c).mp (by rw [h]; rfl)]; simp)\n  cases hi\n  simp only [doUUnlock, hf, Bool.false_eq_true, ↓reduceIte]\n  {T}') for f in ('false', 'true')],
   dispatch='have hbd : b = .runWriter ∨ (∃ sw, b = .stored sw) ∨ (∃ sr, b = .readersPass sr) ∨ (∃ sr, b = .passOnly sr) := by cases b <;> simp\n  rcases hbd with hbr | ⟨sw, hbr⟩ | ⟨sr, hbr⟩ | ⟨sr, hbr⟩\n  · cases hf : s.cfg.fifo\n    · exact $1 hbr hf\n    · exact $2 hbr hf\n  · cases hf : s.cfg.fifo\n    · exact $3 sw hbr hf\n    · exact $4 sw hbr hf\n  · rw [hbr] at hb; simp [needsWriter] at hb\n  · rw [hbr] at hb; simp [needsWriter] at hb'),
 'uUnlockP': dict(
   branches=[B('(sr : Nat) (hbr : b = .readersPass sr)', f'subst hbr\n  have hpa := hi.pend_amt c sr (Or.inl h)\n  cases hi\n  simp only [doUUnlock]\n  {T}'),
             B('(sr : Nat) (hbr : b = .passOnly sr)', f'subst hbr\n  have hpa := hi.pend_amt c sr (Or.inr h)\n  cases hi\n  simp only [doUUnlock]\n  {T}')],
   dispatch='have hbd : b = .runWriter ∨ (∃ sw, b = .stored sw) ∨ (∃ sr, b = .readersPass sr) ∨ (∃ sr, b = .passOnly sr) := by cases b <;> simp\n  rcases hbd with hbr | ⟨sw, hbr⟩ | ⟨sr, hbr⟩ | ⟨sr, hbr⟩\n  · rw [hbr] at hb; simp [needsWriter] at hb\n  · rw [hbr] at hb; simp [needsWriter] at hb\n  · exact $1 sr hbr\n  · exact $2 sr hbr'),
 'runR': dict(
   pre='have ⟨hn, hnr⟩ := head_pc_torun hi ht\n  cases hi',
   branches=[B('(hr : rest = [])', f'simp only [doRunR, hr, ↓reduceIte]\n  {T}'),
             B('(hr : ¬ rest = [])', f'simp only [doRunR, hr, ↓reduceIte]\n  {T}')],
   dispatch='by_cases hr : rest = []\n  · exact $1 hr\n  · exact $2 hr'),
}

proofs = {
 'rdFadd': f'''
  cases hi
  by_cases hW : s.W = 0
  · simp only [doRdFadd, hW, ↓reduceIte]; {T}
  · simp only [doRdFadd, hW, ↓reduceIte]; {T}''',
 'spinOk': f'\n  cases hi\n  cases k <;> {T}',
 'spinBusy': f'\n  cases hi\n  cases k <;> {T}',
 'spinLoad': f'\n  cases hi\n  cases k <;> cases sawFree <;> simp only [Bool.not_true, Bool.not_false] <;> {T}',
 'rdUnlock': f'''
  {HPB}
  have hc1 : s.ifl.count c = 1 := by have := hi.l_ifl c; rw [h] at this; simpa [Pc.isIFL] using this
  have hl := len_pos_of_count hc1
  have hWne : s.pass = 0 → s.W ≠ 0 := by
    intro hp0 hW0; have := (hi.j1 hW0).1; omega
  cases hi
  by_cases hp : s.pass = 0
  · cases hr : s.cfg.rfifo <;>
      simp only [doRdUnlock, hp, hr, ne_eq, not_true_eq_false, Bool.false_eq_true, ↓reduceIte] <;> {T}
  · simp only [doRdUnlock, hp, ne_eq, not_false_eq_true, ↓reduceIte]; {T}''',
 'rdFsub': f'''
  cases hi
  by_cases hW : s.W = 0
  · simp only [doRdFsub, hW, ↓reduceIte]; {T}
  · cases hpw : s.pw <;> simp only [doRdFsub, hW, ↓reduceIte] <;> {T}''',
 'rwFsub': f'''
  cases hi
  by_cases h1 : s.rwait = 1
  · cases hpw : s.pw <;> simp only [doRwFsub, h1, hpw, ↓reduceIte] <;> {T}
  · simp only [doRwFsub, h1, ↓reduceIte]; {T}''',
 'runFirst': f'''
  have hby := hi.pc_rRun c h
  obtain ⟨n', hpw⟩ := PW.cases_by hby
  have hn : n' = n := by
    have := hi.pw_first n' (by rw [hpw]; rfl)
    rw [hf] at this; exact (Option.some.inj this).symm
  subst hn
  cases hi
  {T}''',
 'trCasOk': f'\n  {PWN}\n  cases hi\n  {T}',
 'twLoad': f'''
  cases hi
  cases sawZero
  · by_cases ht' : curOp s c = .tryWr <;> simp only [doTwLoad, failW, ht', Bool.false_eq_true, ↓reduceIte] <;> {T}
  · simp only [doTwLoad, ↓reduceIte]; {T}''',
 'twCasOk': f'\n  {PWN}\n  cases hi\n  {T}',
 'twCasFail': f"\n  cases hi\n  by_cases ht' : curOp s c = .tryWr <;> simp only [failW, ht', ↓reduceIte] <;> {T}",
 'wrFadd': f'''
  {HPB}
  by_cases hW : s.W = 0
  · {PWN.replace(chr(10)+"    ", chr(10)+"      ")}
    cases hi
    by_cases hR : s.R = 0
    · simp only [doWrFadd, hW, hR, ↓reduceIte]; {T}
    · simp only [doWrFadd, hW, hR, ↓reduceIte]; {T}
  · cases hi
    simp only [doWrFadd, hW, ↓reduceIte]; {T}''',
 'wrPost': f'''
  cases hi
  by_cases hp : s.rwait = -(r : Int)
  · simp only [doWrPost, hp, ↓reduceIte]; {T}
  · simp only [doWrPost, hp, ↓reduceIte]; {T}''',
 'wUnlock': f'''
  cases hi
  cases k
  · simp only [doWUnlock]; {T}
  · by_cases hc : (s.cfg.fifo = true ∧ s.Q = [])
    · simp only [doWUnlock, hc, and_self, ↓reduceIte]; {T}
    · simp only [doWUnlock, hc, ↓reduceIte]; {T}''',
 'wuFsub': f'''
  cases hi
  by_cases hb1 : (s.cfg.fifo = true ∧ s.prio ≠ 0)
  · simp only [doWuFsub, branchOf, hb1, and_self, givesUp, Bool.false_eq_true, ↓reduceIte]; {T}
  · by_cases hq : s.Q = []
    · by_cases hb2 : (¬ s.cfg.fifo = true ∧ s.W ≠ 1)
      · simp only [doWuFsub, branchOf, hb1, hq, hb2, ne_eq, not_true_eq_false, and_self, givesUp, Bool.false_eq_true, ↓reduceIte]; {T}
      · simp only [doWuFsub, branchOf, hb1, hq, hb2, ne_eq, not_true_eq_false, givesUp, Bool.false_eq_true, ↓reduceIte]; {T}
    · by_cases hw1 : s.W = 1
      · simp only [doWuFsub, branchOf, hb1, hq, hw1, ne_eq, not_true_eq_false, not_false_eq_true, givesUp, Bool.false_eq_true, ↓reduceIte]; {T}
      · simp only [doWuFsub, branchOf, hb1, hq, hw1, ne_eq, not_false_eq_true, givesUp, Bool.false_eq_true, ↓reduceIte]; {T}''',
 'uUnlockW': f'''
  have ⟨hn, hnr⟩ := head_pc_wq hi hq
  have hmem : ∀ x, x ∈ s.Q ↔ s.pc x = .rparked := fun x => mem_iff_of_count (hi.l_q x)
  have hst := hi.st_sw c
  have hlq := hi.l_qsize
  cases b with
  | runWriter =>
      cases hi
      cases hf : s.cfg.fifo <;> simp only [doUUnlock, hf, Bool.false_eq_true, ↓reduceIte] <;> {T}
  | stored sw =>
      have h2w := hi.j2w c ((hi.l_excl c).mp (by rw [h]; rfl))
      have h2 := hi.j2 (by rw [(hi.l_excl c).mp (by rw [h]; rfl)]; simp)
      cases hi
      cases hf : s.cfg.fifo <;> simp only [doUUnlock, hf, Bool.false_eq_true, ↓reduceIte] <;> {T}
  | readersPass sr => simp [needsWriter] at hb
  | passOnly sr => simp [needsWriter] at hb''',
 'uUnlockP': f'''
  cases b with
  | runWriter => simp [needsWriter] at hb
  | stored sw => simp [needsWriter] at hb
  | readersPass sr =>
      have hpa := hi.pend_amt c sr (Or.inl h)
      cases hi
      simp only [doUUnlock]; {T}
  | passOnly sr =>
      have hpa := hi.pend_amt c sr (Or.inr h)
      cases hi
      simp only [doUUnlock]; {T}''',
 'runR': f'''
  have ⟨hn, hnr⟩ := head_pc_torun hi ht
  cases hi
  by_cases hr : rest = []
  · simp only [doRunR, hr, ↓reduceIte]; {T}
  · simp only [doRunR, hr, ↓reduceIte]; {T}''',
}
default = f'\n  cases hi\n  {T}'
branch_files = []
for (name, bs, names, label, st) in ctors:
    if only and name not in only: continue
    binders=' '.join('(%s)' % b for b in bs)
    args=' '.join(names)
    hdr=["import YaclibModel.Proofs.CoSharedMutex", "namespace Yaclib.CoSharedMutex", ""]
    if name in specs:
        sp=specs[name]
        imports=[]
        for k,(xb, body) in enumerate(sp['branches'], 1):
            pre = sp.get('pre')
            blines = body.split('\n')
            substs = [l.strip() for l in blines if l.strip().startswith('subst ')]
            rest_ = [l for l in blines if not l.strip().startswith('subst ')]
            frags = substs + ([pre] if pre else []) + ['\n'.join(rest_)]
            def ind(fr):
                ls = fr.split('\n')
                ls[0] = '  ' + ls[0].strip()
                return '\n'.join(ls)
            full = '\n'.join(ind(f) for f in frags if f.strip())
            out=hdr+["set_option maxHeartbeats 4000000 in",
                 "theorem inv_%s_%d {cfg : Cfg} {s : State} (hi : Inv cfg s) %s %s :\n    Inv cfg (%s) := by\n%s" % (name, k, binders, xb, st, full),
                 "", "end Yaclib.CoSharedMutex", ""]
            fn='CoSharedMutexS_%s_%d' % (name, k)
            open(LEAN+'/Proofs/%s.lean' % fn,'w').write("\n".join(out))
            imports.append(fn)
        disp=sp['dispatch']
        for k in range(len(sp['branches']),0,-1):
            disp=disp.replace('$%d' % k, 'inv_%s_%d hi %s' % (name, k, args))
        out=["import YaclibModel.Proofs.%s" % f for f in imports]+["namespace Yaclib.CoSharedMutex", "",
             "theorem inv_%s {cfg : Cfg} {s : State} (hi : Inv cfg s) %s :\n    Inv cfg (%s) := by\n  %s" % (name, binders, st, disp),
             "", "end Yaclib.CoSharedMutex", ""]
        open(LEAN+'/Proofs/CoSharedMutexS_%s.lean' % name,'w').write("\n".join(out))
    else:
        out=hdr+["set_option maxHeartbeats 4000000 in",
             "theorem inv_%s {cfg : Cfg} {s : State} (hi : Inv cfg s) %s :\n    Inv cfg (%s) := by%s" % (name, binders, st, proofs.get(name, default)),
             "", "end Yaclib.CoSharedMutex", ""]
        open(LEAN+'/Proofs/CoSharedMutexS_%s.lean' % name,'w').write("\n".join(out))
# combiner
out=["/- GENERATED by the proof-file generator described in notes/C15.md: preservation of `Inv` by every step -/"]
out+=["import YaclibModel.Proofs.CoSharedMutexS_%s" % c[0] for c in ctors]
out+=["namespace Yaclib.CoSharedMutex","","theorem inv_step {cfg s l s'} (hi : Inv cfg s) (hs : Step s l s') : Inv cfg s' := by","  cases hs with"]
for (name, bs, names, label, st) in ctors:
    out.append("  | %s %s => exact inv_%s hi %s" % (name, ' '.join(names), name, ' '.join(names)))
out+=["","theorem inv_reachable {cfg s} (h : Reachable cfg s) : Inv cfg s := by","  induction h with","  | init => exact inv_init cfg","  | step _ hs ih => exact inv_step ih hs","","end Yaclib.CoSharedMutex",""]
if not only:
    open(LEAN+'/Proofs/CoSharedMutexInv.lean','w').write("\n".join(out))
print(len(ctors), [c[0] for c in ctors])
