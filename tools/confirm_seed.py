#!/usr/bin/env python3
"""tools/confirm_seed.py <worktree> <patch> <demo.cpp> <libkind: fiber|plain|tsan> [extra g++ flags…]
Confirms a seeded change in a scratch worktree: the patch applies, the library of the given kind builds,
the demonstration FAILS (non-zero exit / sanitizer report) with the patch and PASSES without.
The baseline suite is run separately (tools/run_baseline.sh <worktree>)."""
import os
import subprocess
import sys

wt, patch, demo, kind = sys.argv[1:5]
extra = sys.argv[5:]
CM = {
    'fiber': ['-DYACLIB_FAULT=FIBER', '-DYACLIB_CXX_STANDARD=20', '-DYACLIB_FLAGS=CORO'],
    'plain': ['-DYACLIB_CXX_STANDARD=20', '-DYACLIB_FLAGS=CORO'],
    'thread': ['-DYACLIB_FAULT=THREAD', '-DYACLIB_CXX_STANDARD=20', '-DYACLIB_FLAGS=CORO'],
    'asan': ['-DYACLIB_CXX_STANDARD=20', '-DYACLIB_FLAGS=CORO;ASAN;UBSAN'],
    'tsan': ['-DYACLIB_CXX_STANDARD=20', '-DYACLIB_FLAGS=CORO;TSAN'],
}
FL = {'fiber': ['-std=c++20', '-fcoroutines'], 'plain': ['-std=c++20', '-fcoroutines'], 'thread': ['-std=c++20', '-fcoroutines'],
      'asan': ['-std=c++20', '-fcoroutines', '-fsanitize=address,undefined', '-g', '-O1'],
      'tsan': ['-std=c++20', '-fcoroutines', '-fsanitize=thread', '-g', '-O1']}


def sh(cmd, **kw):
    return subprocess.run(cmd, capture_output=True, text=True, **kw)


def build_and_run(tag):
    b = os.path.join(wt, '_b_' + kind)
    r = sh(['cmake', '-G', 'Ninja', '-S', wt, '-B', b, '-DCMAKE_BUILD_TYPE=RelWithDebInfo'] + CM[kind])
    r = sh(['cmake', '--build', b, '-j', '8'])
    if r.returncode != 0:
        return 'LIB-BUILD-FAILED', r.stdout[-800:]
    exe = os.path.join(wt, '_demo_' + tag)
    r = sh(['g++'] + FL[kind] + extra + ['-I' + wt + '/include', '-I' + b + '/include', demo, b + '/src/libyaclib.a', '-lpthread', '-o', exe])
    if r.returncode != 0:
        return 'DEMO-BUILD-FAILED', r.stderr[-800:]
    try:
        r = sh([exe], timeout=300)
    except subprocess.TimeoutExpired:
        return 'TIMEOUT', ''
    bad = r.returncode != 0 or 'ThreadSanitizer' in r.stderr or 'AddressSanitizer' in r.stderr or 'LeakSanitizer' in r.stderr
    return ('FAIL' if bad else 'PASS'), (r.stdout[-300:] + r.stderr[-300:])


sh(['git', '-C', wt, 'checkout', '--', '.'])
r = sh(['git', '-C', wt, 'apply', patch])
if r.returncode != 0:
    print('patch does not apply', r.stderr)
    sys.exit(2)
w, wo_ = build_and_run('with')
sh(['git', '-C', wt, 'checkout', '--', '.'])
wo, woo = build_and_run('without')
print('with patch   :', w, '|', wo_.replace('\n', ' ')[:200])
print('without patch:', wo, '|', woo.replace('\n', ' ')[:200])
sys.exit(0 if (w in ('FAIL', 'TIMEOUT') and wo == 'PASS') else 1)
